"""Harness-side interception of SciPy's iterative solvers (no hook in the repository is needed).

`Intercept()` is a context manager that replaces the Krylov solvers of `scipy.sparse.linalg` by recording
wrappers for the duration of a case.  Each call is logged with the solver's own convergence flag and the true
relative residual.  With `fault_at=k` the k-th call is truncated (`maxiter=1`), which makes the solver return
a genuine `info > 0` - the injected fault of C04.
"""

from __future__ import annotations

import numpy as np
import scipy.sparse.linalg as sla

KRYLOV = ("bicgstab", "bicg", "cg", "cgs", "gmres", "lgmres", "qmr", "gcrotmk", "tfqmr", "minres")


class Intercept:
    def __init__(self, fault_at=None):
        self.fault_at = fault_at
        self.calls = []  # dicts: solver, info, relres, faulted
        self._orig = {}
        self._rebinds = []

    def _wrap(self, name, fn):
        def wrapper(A, b, *args, **kwargs):
            k = len(self.calls)
            faulted = self.fault_at is not None and k == self.fault_at
            if faulted:
                kwargs = dict(kwargs)
                kwargs["maxiter"] = 1
            out = fn(A, b, *args, **kwargs)
            try:
                x, info = out[0], out[1]
                bb = np.asarray(b, float).ravel()
                r = np.asarray(A @ np.asarray(x, float).ravel()).ravel() - bb
                relres = float(np.linalg.norm(r) / max(np.linalg.norm(bb), 1e-300))
            except Exception:  # noqa: BLE001 - unusual return shape: record what we can
                info, relres = None, float("nan")
            self.calls.append({"solver": name, "info": None if info is None else int(info), "relres": relres, "faulted": faulted})
            return out

        wrapper.__wrapped__ = fn
        return wrapper

    def __enter__(self):
        for name in KRYLOV:
            fn = getattr(sla, name, None)
            if fn is None:
                continue
            self._orig[name] = fn
            w = self._wrap(name, fn)
            setattr(sla, name, w)
            # a `from scipy.sparse.linalg import bicgstab` in the library binds the function early: patch that too
            for mod in self._lib_modules():
                for attr, val in list(vars(mod).items()):
                    if val is fn:
                        self._rebinds.append((mod, attr, fn))
                        setattr(mod, attr, w)
        return self

    @staticmethod
    def _lib_modules():
        import sys

        return [m for n, m in list(sys.modules.items()) if n.startswith("bluebonnet") and m is not None]

    def __exit__(self, *exc):
        for name, fn in self._orig.items():
            setattr(sla, name, fn)
        for mod, attr, fn in self._rebinds:
            setattr(mod, attr, fn)
        return False
