"""C11 - Array evaluation equals elementwise scalar evaluation for every dtype."""

from __future__ import annotations

import math

import numpy as np
from hypothesis import strategies as st

from vf import gens
from vf.core import LibRaised, Result, lib

ID = "C11"
TITLE = "Array evaluation equals elementwise scalar evaluation for every dtype"
LEVEL = "exploration"
BUDGET = {"quick": 6400, "thorough": 800000}
SHRINK = {"quick": True, "thorough": True}
FUZZ = {"thorough": 2500}  # executions per atheris process (16 processes), after the Hypothesis search
RULE = (
    "Hypothesis draws an oil (as C12), salinity 0..25, a gas pseudocritical point, a dtype from "
    "{float64, float32, int64, int32}, a length 0..40 and a layout (contiguous, step 2, step 3, reversed view of a "
    "larger base array, a pandas Series with non-default row labels, a 2-D grid in C order / Fortran order / as a transposed view, a 0-d array, a read-only view, a non-native (big-endian) byte order, or a long array of ~2500 elements); elements are fractions of [15, 2.5 p_b] mixed with p_b itself (exact in float64), its "
    "float neighbours and its integer neighbours. Every array-accepting correlation (oil FVF, solution GOR, "
    "undersaturated compressibility, oil density, the five water correlations, the Fluid methods) is called "
    "once with the array and once per element with a Python float. Non-trivial = length >= 2 with values on "
    "both sides of p_b, or a non-float64 dtype, or a non-contiguous view, or length 0. Distinct = hash of the case."
)
ASSUMPTIONS = [
    "tolerance 64 * eps of the floating type involved (float32 eps for float32 inputs, else float64 eps), relative, plus the same in absolute terms scaled by the value",
    "oil_compressibility_undersat_Spivey gets 64x that tolerance: its quadratic form in six logarithms is summed in a "
    "different order by the array branch (matrix product) and rounding is amplified by the exponential (measured "
    "worst case 70 eps far below the bubble point)",
    "1-D arrays for every function; 0-d and 2-D arrays (C order, Fortran order, transposed view) are checked for every function that accepts them (a function raising on such a shape does not 'accept' it and is counted, not reported)",
    "the gas wrappers of Fluid are compared only for reduced pressure <= 30",
    "the water correlations are compared only when every pressure is <= 20000 psia: beyond 46340 psia the square of "
    "an int32 pressure overflows, far outside any pressure the McCain correlations are meant for (an implicit "
    "precondition every real caller respects; not reported as a defect)",
]
LEVEL_TEXT = (
    "Differential testing of each array branch against the scalar branch over generated dtypes, strides, "
    "lengths and splits around the bubble point, plus dtype/shape/non-mutation checks. Exploration."
)

DTYPES = ["float64", "float32", "int64", "int32"]


@st.composite
def strategy_(draw):
    oil = draw(gens.oil_params())
    dtype = draw(st.sampled_from(DTYPES + ["float64", "int64"]))
    n = draw(st.one_of(st.sampled_from([0, 1, 2]), st.integers(0, 40)))
    layout = draw(st.sampled_from(["contiguous", "contiguous", "step2", "step3", "reversed", "series", "2d-C", "2d-F", "2d-T", "0d", "readonly", "bigendian", "long"]))
    elems = [
        draw(
            st.one_of(
                st.floats(0.0, 1.0).map(lambda f: ("frac", f)),
                st.sampled_from([("pb", 0), ("pb", -1), ("pb", 1), ("pbint", 0), ("pbint", 1), ("frac", 0.0), ("frac", 1.0)]),
            )
        )
        for _ in range(n)
    ]
    return {
        "oil": oil,
        "salinity": draw(st.one_of(st.just(0.0), st.floats(0.0, 25.0))),
        "tpc": draw(st.floats(-120.0, 0.0)),
        "ppc": draw(st.floats(550.0, 800.0)),
        "dtype": dtype,
        "layout": layout,
        "elems": [list(e) for e in elems],
    }


def strategy(tier):
    return strategy_()


def _build_array(case, pb):
    vals = []
    for kind, x in case["elems"]:
        if kind == "frac":
            v = 15.0 + x * (2.5 * pb - 15.0)
        elif kind == "pb":
            v = pb if x == 0 else (math.nextafter(pb, 0.0) if x < 0 else math.nextafter(pb, math.inf))
        else:
            v = math.floor(pb) + x
        vals.append(v)
    dt = np.dtype(case["dtype"])
    if dt.kind == "i":
        vals = [max(15, int(round(v))) for v in vals]
    arr = np.array(vals, dtype=dt)
    layout = case["layout"]
    n = len(vals)
    if layout == "0d":
        # a 0-dimensional array (what np.asarray(scalar) or an element of np.nditer gives)
        base = np.array(vals[0] if n else 15, dtype=dt)
        return base, base
    if layout.startswith("2d"):
        # N-d pressure grids in C order, Fortran order and as a transposed view (DataFrame.to_numpy(), meshgrid.T)
        if n < 4:
            arr = np.array((vals + [15, 15, 15, 15])[:4], dtype=dt)
            n = 4
        r = 2 if n % 3 else 3
        c = n // r
        arr = arr[: r * c]
        if layout == "2d-C":
            base = arr.reshape(r, c).copy()
            return base, base
        if layout == "2d-F":
            base = np.asfortranarray(arr.reshape(r, c))
            return base, base
        base = arr.reshape(c, r).copy()
        return base, base.T
    if layout == "long" and n > 0:
        # thousands of elements (the generated values repeated): chunked / vectorised paths must agree with short ones
        base = np.tile(arr, 1 + 2500 // n)
        return base, base
    if layout == "bigendian" and n > 0:
        # non-native byte order (arrays read from a binary file written on another platform)
        base = arr.astype(arr.dtype.newbyteorder(">"))
        return base, base
    if layout == "readonly" and n > 0:
        base = arr.copy()
        view = base.view()
        view.flags.writeable = False
        return base, view
    if layout in ("contiguous", "long", "bigendian", "readonly") or n == 0:
        base = arr.copy()
        view = base
    elif layout == "reversed":
        base = arr[::-1].copy()
        view = base[::-1]
    else:
        step = 2 if layout == "step2" else 3
        base = np.full(n * step, 7777, dtype=dt)
        base[::step] = arr
        view = base[::step]
    return base, view


def check_case(case) -> Result:
    from bluebonnet.fluids import Fluid
    from bluebonnet.fluids import gas as G
    from bluebonnet.fluids import oil as O
    from bluebonnet.fluids import water as W

    res = Result()
    o = case["oil"]
    T, api, sg, gor, sal = (*gens.oil_tuple(o), case["salinity"])
    tpc, ppc = case["tpc"], case["ppc"]
    pb = float(lib("pressure_bubblepoint_Standing", O.pressure_bubblepoint_Standing, T, api, sg, gor))
    if not (math.isfinite(pb) and pb > 50):
        res.skipped = "bubble point <= 50 psia"
        return res
    base, arr = _build_array(case, pb)
    n = int(arr.size)
    nd = arr.ndim != 1
    given = arr
    if case["layout"] == "series" and n > 0:
        import pandas as pd

        # a DataFrame column: same values, row labels that are not 0..n-1
        given = pd.Series(arr, index=np.arange(n) * 2 + 7)
    fl = Fluid(T, api, sg, gor, salinity=sal)
    funcs = [
        ("oil.b_o_Standing", lambda p: O.b_o_Standing(T, p, api, sg, gor)),
        ("oil.solution_gor_Standing", lambda p: O.solution_gor_Standing(T, p, api, sg, gor)),
        ("oil.oil_compressibility_undersat_Spivey", lambda p: O.oil_compressibility_undersat_Spivey(T, p, api, sg, gor)),
        ("oil.density_Standing", lambda p: O.density_Standing(T, p, api, sg, gor)),
        ("Fluid.oil_FVF", fl.oil_FVF, lambda p: O.b_o_Standing(T, p, api, sg, gor)),
        ("Fluid.oil_viscosity", fl.oil_viscosity, lambda p: O.viscosity_beggs_robinson(T, p, api, sg, gor)),
    ]
    water_ok = n == 0 or float(np.max(arr)) <= 20000.0
    res.labels["water_functions_compared"] = water_ok
    if water_ok:
        funcs += [
        ("water.b_water_McCain", lambda p: W.b_water_McCain(T, p)),
        ("water.b_water_McCain_dp", lambda p: W.b_water_McCain_dp(T, p)),
        ("water.compressibility_water_McCain", lambda p: W.compressibility_water_McCain(T, p, sal)),
        ("water.density_water_McCain", lambda p: W.density_water_McCain(T, p, sal)),
        ("water.viscosity_water_McCain", lambda p: W.viscosity_water_McCain(T, p, sal)),
        ("Fluid.water_FVF", fl.water_FVF, lambda p: W.b_water_McCain(T, p)),
        ("Fluid.water_viscosity", fl.water_viscosity, lambda p: W.viscosity_water_McCain(T, p, sal)),
        ]
    if n == 0 or float(np.max(arr)) / ppc <= 30.0:
        funcs += [
            ("Fluid.gas_FVF", lambda a: fl.gas_FVF(a, tpc, ppc), lambda p: G.b_factor_DAK(T, p, tpc, ppc)),
            ("Fluid.gas_viscosity", lambda a: fl.gas_viscosity(a, tpc, ppc), lambda p: G.viscosity_Sutton(T, p, tpc, ppc, sg)),
        ]
    eps = float(np.finfo(np.float32).eps) if case["dtype"] == "float32" else float(np.finfo(np.float64).eps)
    tol_rel = 64 * eps
    snapshot = base.tobytes()
    for entry in funcs:
        name, f_arr = entry[0], entry[1]
        f_sc = entry[2] if len(entry) == 3 else entry[1]
        try:
            out = f_arr(given)
        except Exception as e:  # noqa: BLE001
            if nd:
                # a correlation that does not accept 0-d / N-d input at all is outside "accepts an array of
                # pressures" for this shape; one that does accept it must get shape and values right
                res.counts["nd_input_not_accepted"] = res.counts.get("nd_input_not_accepted", 0) + 1
                continue
            res.bad("C11/array-call-raises", f"{name}(array dtype={arr.dtype} n={n} layout={case['layout']}) raised {type(e).__name__}: {e}")
            continue
        out = np.asarray(out)
        if out.shape != arr.shape:
            res.bad("C11/shape", f"{name}: result shape {out.shape} for input shape {arr.shape} dtype={arr.dtype}")
            continue
        # a 0-d input takes the scalar branch, which hands an integer initial GOR back as given (documented example)
        if out.dtype.kind != "f" and arr.ndim != 0:
            res.bad("C11/float-result", f"{name}: result dtype {out.dtype} for input dtype {arr.dtype}")
        if base.tobytes() != snapshot:
            res.bad("C11/input-unmodified", f"{name} modified its input array (dtype={arr.dtype} layout={case['layout']})")
            base[...] = np.frombuffer(snapshot, dtype=base.dtype).reshape(base.shape)
        if nd:
            res.counts["nd_input_accepted"] = res.counts.get("nd_input_accepted", 0) + 1
        idxs = list(np.ndindex(arr.shape))
        if len(idxs) > 60:  # long arrays: the first, the last and every 41st element
            idxs = idxs[:20] + idxs[20:-20:41] + idxs[-20:]
        for k in idxs:
            pk = float(arr[k])
            want = float(lib(f"{name} scalar", f_sc, pk))
            got = float(out[k])
            if not math.isfinite(want):
                continue  # scalar call itself not finite: nothing to compare (counted)
            ok = res.check(
                "C11/elementwise",
                abs(got - want),
                (64 if "Spivey" in name else 1) * tol_rel * abs(want) + 1e-300,
                f"{name}: array[{k}]={got!r} scalar({pk!r})={want!r} dtype={arr.dtype} layout={case['layout']} p_b={pb!r} oil={o};",
            )
            if not ok:
                break
    vals = [float(x) for x in arr.ravel()]
    both = any(v < pb for v in vals) and any(v >= pb for v in vals)
    res.nontrivial = (n >= 2 and both) or case["dtype"] != "float64" or (case["layout"] != "contiguous" and n > 0) or n == 0
    res.labels["dtype"] = case["dtype"]
    res.labels["layout"] = case["layout"] if n else "empty"
    res.labels["len"] = "0" if n == 0 else ("1" if n == 1 else ("2-9" if n < 10 else "10-40"))
    res.labels["straddles_pb"] = both
    res.labels["contains_pb_exactly"] = any(v == pb for v in vals)
    return res
