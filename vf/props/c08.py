"""C08 - All pseudopressure routes agree and are strictly increasing in pressure."""

from __future__ import annotations

import math

import numpy as np
from hypothesis import strategies as st

from vf import forms, gens
from vf.core import Result, history_independent, lib

ID = "C08"
TITLE = "All pseudopressure routes agree and are strictly increasing in pressure"
LEVEL = "exploration"
BUDGET = {"quick": 1600, "thorough": 150000}
SHRINK = {"quick": False, "thorough": True}
RULE = (
    "'gas' cases: a generated composition (N2/H2S/CO2 0..0.15, gravity 0.55..1.2, 80..400 F, both dryness settings), "
    "a table maximum 200..3000 psia in quick (..14000 in thorough) and 2..5 table nodes; pseudopressure "
    "differences between the nodes are computed by adaptive quadrature (pseudopressure_Hussainy), by "
    "build_pvt_gas and by fluids.pseudopressure on the table's columns, plus additivity of the quadrature route "
    "over a generated split. 'transform' cases: arbitrary positive (pressure, viscosity, Z) tables of 2..60 rows "
    "(uniform, geometric, jittered grids and evenly spaced grids with rows inserted in the middle; smooth synthetic or rough random columns) given to "
    "fluids.pseudopressure. Non-trivial = a gas case whose extreme nodes are >= 50 psi apart, or a transform "
    "case with >= 3 rows. The builder's maximum pressure is a float, or a whole number handed over as Python / numpy int or by "
    "keyword. Distinct = hash of the case record."
    " Float64 ndarray transform cases also build a table with one node listed twice (properties of either side of a discontinuity) and hand it over bottom-up and top-down."
)
ASSUMPTIONS = [
    "quadrature accuracy: the two tabulated routes use the trapezoid rule on a 10-psi grid; the admissible gap to the adaptive quadrature is 5x the trapezoid error estimated from the table's own second differences of 2p/(mu Z), plus 1e-6 relative",
    "the tabulating builder and the stand-alone transform must agree to 1e-12 relative (same rule on the same columns)",
    "compositions whose Sutton point puts the state outside 1.05 <= T_r <= 3 or p_r <= 30 are discarded (counted)",
]
LEVEL_TEXT = (
    "Three-way differential between the library's quadrature, tabulating and stand-alone pseudopressure "
    "routes with a tolerance derived from each table, plus reference-zero, monotonicity and additivity "
    "checks and an analytic reference for the stand-alone transform. Exploration."
)


@st.composite
def gas_case(draw, tier):
    comp = draw(gens.gas_composition())
    hi = 3000.0 if tier == "quick" else 14000.0
    pmax = draw(st.floats(200.0, hi))
    n = draw(st.integers(2, 5))
    fr = sorted(draw(st.floats(0.0, 1.0)) for _ in range(n))
    if draw(st.integers(0, 2)) == 0:
        pmax = float(round(pmax))  # whole numbers (not necessarily multiples of 10) can be handed over as ints
    return {"kind": "gas", "comp": comp, "pmax": pmax, "pmax_form": draw(forms.pmax_form()), "node_fracs": fr, "split": draw(st.floats(0.05, 0.95)), "offnode": [draw(st.floats(0.0, 1.0)) for _ in range(2)]}


@st.composite
def transform_case(draw):
    n = draw(st.integers(2, 60))
    grid = draw(st.sampled_from(["uniform", "geometric", "jitter", "uniform-edited", "uniform-edited"]))
    p0 = draw(st.floats(1.0, 500.0))
    p1 = p0 + draw(st.floats(10.0, 14000.0))
    jit = [draw(st.floats(0.05, 0.95)) for _ in range(n)] if grid == "jitter" else []
    if grid == "uniform-edited":
        # an evenly spaced lab table with rows inserted (at an initial / dew-point pressure) or removed in the middle
        n = max(n, 5)
        jit = [draw(st.floats(0.05, 0.95)) for _ in range(draw(st.integers(1, 3)))]
    family = draw(st.sampled_from(["smooth", "rough"]))
    if family == "smooth":
        cols = {"mu0": draw(st.floats(0.005, 0.1)), "mu_slope": draw(st.floats(0.0, 3.0)), "za": draw(st.floats(-0.4, 0.2)), "zb": draw(st.floats(0.0, 0.6))}
    else:
        cols = {"mu": [draw(st.floats(0.005, 1.0)) for _ in range(n)], "z": [draw(st.floats(0.2, 3.0)) for _ in range(n)]}
    return {"kind": "transform", "n": n, "grid": grid, "p0": p0, "p1": p1, "jit": jit, "family": family, "cols": cols, "container": draw(st.sampled_from(["ndarray", "series"])), "pressure_dtype": draw(st.sampled_from(["float64", "float64", "int64", "int32", "float32"]))}


def strategy(tier):
    return st.one_of(gas_case(tier), gas_case(tier), transform_case())


def _trap_bound(p, f, i0, i1):
    """Estimate of the trapezoid error of integral f dp over nodes i0..i1 from second differences."""
    d2 = np.zeros(len(p))
    d2[1:-1] = np.abs(f[2:] - 2 * f[1:-1] + f[:-2])
    d2[0], d2[-1] = d2[1], d2[-2]
    h = np.diff(p)
    seg = h * np.maximum(d2[:-1], d2[1:]) / 12.0
    return float(np.sum(seg[i0:i1]))


def check_case(case) -> Result:
    from bluebonnet import fluids as F
    from bluebonnet.fluids import gas as G

    res = Result()
    res.labels["kind"] = case["kind"]
    if case["kind"] == "transform":
        n = case["n"]
        u = np.linspace(0.0, 1.0, n)
        if case["grid"] == "geometric":
            p = case["p0"] * (case["p1"] / case["p0"]) ** u
        elif case["grid"] == "jitter":
            w = np.cumsum([0.0] + case["jit"][: n - 1])
            p = case["p0"] + (case["p1"] - case["p0"]) * w / w[-1]
        elif case["grid"] == "uniform-edited":
            p = case["p0"] + (case["p1"] - case["p0"]) * u
            extra = [p[1] + f * (p[-2] - p[1]) for f in case["jit"]]
            p = np.unique(np.concatenate([p, extra]))
            n = len(p)
        else:
            p = case["p0"] + (case["p1"] - case["p0"]) * u
        # rows closer than 1e-9 relative (an inserted row that coincides with an existing one) are merged: increments
        # below the rounding of the running sum are not "a table with increasing pressure" in any meaningful sense
        p = p[np.concatenate([[True], np.diff(p) > 1e-9 * p[1:]])]
        n = len(p)
        pdt = case.get("pressure_dtype", "float64")
        res.labels["pressure_dtype"] = pdt
        if pdt in ("int64", "int32"):
            # whole-number pressures held in an integer column (a lab table read from a CSV)
            p = np.unique(np.rint(p)).astype(pdt)
            n = len(p)
        elif pdt == "float32":
            p = np.unique(p.astype(np.float32))
            n = len(p)
        if n < 2 or not np.all(np.diff(p.astype(float)) > 0):
            res.skipped = "degenerate pressure grid"
            return res
        p_given = p
        p = p.astype(float)
        c = case["cols"]
        if case["family"] != "smooth" and len(c["mu"]) != len(p):  # edited grids: resample the rough columns
            c = {"mu": list(np.resize(c["mu"], len(p))), "z": list(np.resize(c["z"], len(p)))}
        if case["family"] == "smooth":
            x = p / case["p1"]
            mu = c["mu0"] * (1 + c["mu_slope"] * x**2)
            z = 1 + c["za"] * x + c["zb"] * x**2
        else:
            mu, z = np.array(c["mu"]), np.array(c["z"])
        args = (p_given, mu, z)
        if case["container"] == "series":
            import pandas as pd

            args = tuple(pd.Series(a) for a in args)
        elif case["container"] == "list":
            args = tuple(a.tolist() for a in args)
        res.labels["container"] = case["container"]
        m = np.asarray(lib("fluids.pseudopressure", F.pseudopressure, *args), float)
        if m.shape != p.shape:
            res.bad("C08/transform-shape", f"shape {m.shape} for {p.shape}")
            return res
        f = 2 * p / (mu * z)
        want = np.concatenate([[0.0], np.cumsum(0.5 * (f[1:] + f[:-1]) * np.diff(p))])
        if m[0] != 0.0:
            res.bad("C08/zero-at-reference", f"fluids.pseudopressure: value at the first pressure is {m[0]!r}")
        if pdt == "float64" and case["container"] == "ndarray" and n >= 4:
            # a table with a doubled node (a dew-point / phase-boundary discontinuity: the same pressure listed twice with
            # the properties of either side), listed bottom-up and top-down: the transform is the running trapezoid
            # along the listed rows, so differences between rows are the integral of the piecewise-linear integrand
            # with its jump, zero at the first listed row, whatever the direction of the listing
            k = n // 2
            p2 = np.concatenate([p[: k + 1], p[k:]])
            mu2 = np.concatenate([mu[: k + 1], mu[k:] * 1.25])
            z2 = np.concatenate([z[: k + 1], z[k:] * 1.06])
            for label, order in (("bottom-up", slice(None)), ("top-down", slice(None, None, -1))):
                pp, mm, zz = p2[order].copy(), mu2[order].copy(), z2[order].copy()
                got = np.asarray(lib(f"fluids.pseudopressure(doubled node, {label})", F.pseudopressure, pp, mm, zz), float)
                ff = 2 * pp / (mm * zz)
                ref = np.concatenate([[0.0], np.cumsum(0.5 * (ff[1:] + ff[:-1]) * np.diff(pp))])
                if got.shape != ref.shape:
                    res.bad("C08/transform-shape", f"doubled node, {label}: shape {got.shape} for {ref.shape}")
                    break
                res.check("C08/transform-with-a-doubled-node", float(np.max(np.abs(got - ref))), 1e-12 * float(np.max(np.abs(ref))), f"table of {len(pp)} rows with the node {p[k]!r} listed twice (viscosity x1.25, Z x1.06 above it), {label}: running trapezoid along the listed rows;")
            res.labels["doubled_node"] = True
        err = np.abs(m - want)
        res.check("C08/transform-is-trapezoid-of-2p-over-muZ", float(np.max(err / np.maximum(np.abs(want), 1e-300))) if n > 1 else 0.0, 1e-5 if pdt == "float32" else 1e-12, f"fluids.pseudopressure vs trapezoid of 2p/(mu Z) on a {case['grid']} grid of {n} rows ({case['family']});")
        if not np.all(np.diff(m) > 0):
            k = int(np.argmin(np.diff(m)))
            res.bad("C08/strictly-increasing", f"fluids.pseudopressure not increasing between rows {k},{k + 1}: {m[k]!r} -> {m[k + 1]!r} (positive table)")
        if case["family"] == "smooth" and n >= 3:
            # analytic integrand: fine Simpson reference, tolerance from the table's second differences
            from scipy.integrate import quad

            def fx(q):
                x = q / case["p1"]
                return 2 * q / (c["mu0"] * (1 + c["mu_slope"] * x**2) * (1 + c["za"] * x + c["zb"] * x**2))

            ref, _ = quad(fx, p[0], p[-1], limit=200)
            # composite trapezoid: |error| <= sum_k h_k^3 max_{interval k} |f''| / 12, f'' of the analytic integrand by
            # a central second difference (the integrand is smooth and defined beyond the table's ends) on 64 samples
            # per interval
            bound = 0.0
            for k in range(n - 1):
                h = float(p[k + 1] - p[k])
                qq = np.linspace(p[k], p[k + 1], 64)
                d_ = 1e-3 * h
                f2 = np.abs(fx(qq + d_) - 2 * fx(qq) + fx(qq - d_)) / d_**2
                bound += h**3 * float(np.max(f2)) * 1.05 / 12.0
            res.check("C08/transform-vs-analytic-integral", abs(m[-1] - ref), 1.05 * bound + (1e-5 if pdt == "float32" else 1e-9) * abs(ref), f"fluids.pseudopressure end value {m[-1]!r} vs integral {ref!r} ({n} rows, {case['grid']});")
        res.nontrivial = n >= 3
        res.labels["grid"] = case["grid"]
        res.labels["family"] = case["family"]
        return res

    # ---- gas -------------------------------------------------------------------------------------
    comp = case["comp"]
    nh = G.make_nonhydrocarbon_properties(comp["N2"], comp["H2S"], comp["CO2"])
    tpc, ppc = lib("pseudocritical_point_Sutton", G.pseudocritical_point_Sutton, comp["sg"], nh, comp["dryness"])
    T, sg, pmax = comp["T"], comp["sg"], case["pmax"]
    tr = (T + 459.67) / (tpc + 459.67)
    if not (1.05 <= tr <= 3.0 and 0 < ppc and pmax / ppc <= 30.0):
        res.skipped = "Sutton point puts the state outside the Z-factor's range"
        return res
    gv = {"N2": comp["N2"], "H2S": comp["H2S"], "CO2": comp["CO2"], "Gas Specific Gravity": sg, "Reservoir Temperature (deg F)": T}
    df = lib("build_pvt_gas", forms.call_with_pmax, F.build_pvt_gas, gv, comp["dryness"], pmax, case.get("pmax_form", "float"))
    res.labels["pmax_form"] = case.get("pmax_form", "float") + ("" if float(pmax).is_integer() else " (not whole: float)")
    p = np.asarray(df["pressure"], float)
    mt = np.asarray(df["pseudopressure"], float)
    n = len(p)
    if n < 3:
        res.skipped = "table with fewer than 3 rows"
        return res
    if mt[0] != 0.0:
        res.bad("C08/zero-at-reference", f"build_pvt_gas pseudopressure at the first row is {mt[0]!r}")
    if not np.all(np.diff(mt) > 0):
        k = int(np.argmin(np.diff(mt)))
        res.bad("C08/strictly-increasing", f"build_pvt_gas pseudopressure falls between {p[k]!r} and {p[k + 1]!r} psia")
    # route 3 on the table's own columns
    m3 = np.asarray(lib("fluids.pseudopressure", F.pseudopressure, df["pressure"], df["viscosity"], df["z-factor"]), float)
    res.check("C08/builder-equals-transform", float(np.max(np.abs(m3 - mt) / np.maximum(np.abs(mt), 1e-300))), 1e-12, f"build_pvt_gas pseudopressure vs fluids.pseudopressure on its columns ({gv}, pmax={pmax!r});")
    # route 1 at table nodes
    idx = sorted({min(n - 1, int(round(f * (n - 1)))) for f in case["node_fracs"]} | {0, n - 1})
    H = [float(lib("pseudopressure_Hussainy", G.pseudopressure_Hussainy, T, p[i], tpc, ppc, sg)) for i in idx]
    h0 = float(lib("pseudopressure_Hussainy", G.pseudopressure_Hussainy, T, 14.70, tpc, ppc, sg))
    if h0 != 0.0:
        res.bad("C08/zero-at-reference", f"pseudopressure_Hussainy at the standard pressure is {h0!r}")
    fcol = 2 * p / (np.asarray(df["viscosity"], float) * np.asarray(df["z-factor"], float))
    for a in range(len(idx) - 1):
        for b in range(a + 1, len(idx)):
            ia, ib = idx[a], idx[b]
            dq = H[b] - H[a]
            dt = mt[ib] - mt[ia]
            if not dq > 0:
                res.bad("C08/strictly-increasing", f"pseudopressure_Hussainy not increasing: m({p[ia]!r})={H[a]!r}, m({p[ib]!r})={H[b]!r}")
            tol = 5.0 * _trap_bound(p, fcol, ia, ib) + 1e-6 * abs(dq)
            res.check("C08/quadrature-vs-table", abs(dq - dt), tol, f"m({p[ib]!r})-m({p[ia]!r}): quadrature {dq!r}, table {dt!r} ({gv} {comp['dryness']});")
            res.check("C08/quadrature-vs-transform", abs(dq - (m3[ib] - m3[ia])), tol, f"m({p[ib]!r})-m({p[ia]!r}): quadrature {dq!r}, stand-alone transform {m3[ib] - m3[ia]!r};")
    # the quadrature route is a function of its arguments only: other gases (same temperature and pseudocritical point
    # but another gravity, another temperature, ...) and other pressures evaluated in between must not change it
    p_top = float(p[idx[-1]])
    lib("pseudopressure_Hussainy", history_independent, res, "C08/independent-of-call-history", G.pseudopressure_Hussainy, (T, p_top, tpc, ppc, sg),
        [(T, 0.5 * p_top, tpc, ppc, min(1.5, sg * 1.2)), (T, 0.3 * p_top, tpc, ppc, sg * 0.85), (T + 1.0, 0.5 * p_top, tpc, ppc, sg), (T, 0.7 * p_top, tpc, ppc, sg)], "pseudopressure_Hussainy", 1e-7)
    h_again = float(lib("pseudopressure_Hussainy", G.pseudopressure_Hussainy, T, p_top, tpc, ppc, sg))
    if abs(h_again - H[-1]) > 1e-7 * abs(H[-1]):
        res.bad("C08/independent-of-call-history", f"pseudopressure_Hussainy({T!r}, {p_top!r}, ..., sg={sg!r}) = {H[-1]!r} when first evaluated, {h_again!r} after other gases / pressures were evaluated")
    # additivity of the quadrature route over adjacent intervals (arbitrary, off-node pressures)
    lo = 14.7 + case["offnode"][0] * (pmax - 14.7) * 0.5
    hi = lo + (0.05 + 0.95 * case["offnode"][1]) * (pmax - lo)
    mid = lo + case["split"] * (hi - lo)
    ac = float(lib("pseudopressure_Hussainy", G.pseudopressure_Hussainy, T, hi, tpc, ppc, sg, lo))
    ab = float(lib("pseudopressure_Hussainy", G.pseudopressure_Hussainy, T, mid, tpc, ppc, sg, lo))
    bc = float(lib("pseudopressure_Hussainy", G.pseudopressure_Hussainy, T, hi, tpc, ppc, sg, mid))
    res.check("C08/additive", abs(ac - (ab + bc)), 1e-6 * abs(ac), f"m({lo!r}->{hi!r})={ac!r} vs m(->{mid!r})+m({mid!r}->)={ab + bc!r};")
    if not (ab > 0 and bc > 0):
        res.bad("C08/strictly-increasing", f"quadrature over [{lo!r},{mid!r}] = {ab!r}, over [{mid!r},{hi!r}] = {bc!r}")
    res.nontrivial = (p[idx[-1]] - p[idx[0]]) >= 50.0
    res.labels["rows"] = "<100" if n < 100 else ("100-299" if n < 300 else ">=300")
    res.labels["tr_band"] = "1.05-1.5" if tr < 1.5 else "1.5-3"
    return res
