"""C15 - Multiphase pseudopressure is the pressure integral of total mobility."""

from __future__ import annotations

import numpy as np
from hypothesis import strategies as st

from vf import mptables as mp
from vf.core import Result, lib

ID = "C15"
TITLE = "Multiphase pseudopressure is the pressure integral of total mobility"
LEVEL = "exploration"
BUDGET = {"quick": 4000, "thorough": 600000}
SHRINK = {"quick": True, "thorough": True}
RULE = (
    "Hypothesis draws a multiphase PVT table (shipped oil+water merge as the repository's fixture builds it, thinned; "
    "synthetic constant, linear-in-pressure and bubble-point-kinked families with/without vaporised oil; uniform "
    "and jittered pressure grids of 4..60 rows; oil-saturation column rising or falling inside [0, 1-Sw]), an "
    "admissible Brooks-Corey set with water at or below its residual (relative_permeabilities_twophase), "
    "reference densities 1e-4..1e2 (or exactly 0 for one component left out of the mass balance), a unit system for the table (viscosity in cP, Pa s or 1e3 / 1e-6 multiples; pressure in psi, Pa, bar or MPa), porosity, an initial pressure above the second node and a frac-face pressure "
    "below it. Non-trivial = a table with >= 4 rows whose mobility is positive on at least 3 rows. Distinct = hash "
    "of the case record. After from_table the caller's PVT and rel-perm tables are overwritten in place and the object's "
    "functions and m_i must be what they were."
    " The from_table object is also copied (copy, deepcopy, pickle) and the copies must agree with the original."
)
ASSUMPTIONS = [
    "total mass mobility as in docs/background.md with k and rho_ref = 1: rho_o (Rv krg/(mu_g Bg) + kro/(mu_o Bo)) + rho_g (krg/(mu_g Bg) + Rs kro/(mu_o Bo)) + rho_w krw/(mu_w Bw)",
    "'the integral' on a table is the cumulative trapezoid over the table's pressures (1e-10 relative to the end value)",
    "from_table cases use tables with positive total compressibility (others are discarded and counted)",
]
LEVEL_TEXT = (
    "The library's multiphase pseudopressure is compared with an independent trapezoid of the documented "
    "mobility (harness's own table lookup), with the scaling metamorphic relation, and the derived scaled "
    "pseudopressure is checked through FlowPropertiesTwoPhase.from_table. Exploration."
)


@st.composite
def strategy_(draw):
    rp = draw(mp.relperm_params())
    # water at or below its residual (two-phase helper) in 3 of 4 cases, mobile water otherwise
    mobile_water = draw(st.integers(0, 3)) == 0
    if mobile_water:
        sw = rp["S_wc"] + draw(st.floats(0.05, 0.9)) * (1 - rp["S_wc"] - rp["S_or"] - rp["S_gc"])
    else:
        sw = rp["S_wc"] * draw(st.sampled_from([1.0, 1.0, 0.5, 0.0]))
    return {
        "table": draw(mp.table_spec()),
        "relperm": rp,
        "Sw": sw,
        "rho": mp.ref_densities(draw),
        "phi": draw(st.floats(0.01, 0.4)),
        "scale_exp": draw(st.integers(-6, 6)),
        # unit system of the table: viscosity in cP (1), Pa s (1e-3), micro-poise-like large numbers (1e3), pressure in
        # psi (1), Pa, bar, MPa - mobility and its integral scale with them, no magnitude is "typical"
        "mu_unit": draw(st.sampled_from([0, 0, 0, -3, -3, 3, -6])),
        "p_unit": draw(st.sampled_from([1.0, 1.0, 1.0, 6894.757, 0.06894757, 6.894757e-3])),
        "pi_frac": draw(st.floats(0.3, 1.0)),
        "pi_offnode": draw(st.one_of(st.just(0.0), st.floats(0.05, 0.95))),
        "pf_frac": draw(st.floats(0.0, 0.95)),
        # DataFrame row labels: default, shifted, or a permutation of 0..n-1 (what sort_values / iloc[::-1] without
        # reset_index leave behind) - the rows themselves are always in increasing pressure
        "container": draw(st.sampled_from(["dict", "dataframe", "dataframe-offset-index", "dataframe-permuted-index"])),
        # the rows of the relative-permeability table in increasing oil saturation (as the helper returns them), in
        # decreasing oil saturation (a gas/oil table listed against increasing Sg) or in no particular order
        "kr_rows": draw(st.sampled_from(["ascending-So", "ascending-So", "descending-So", "unordered"])),
    }


def strategy(tier):
    return strategy_()


def setup(case):
    from bluebonnet.flow import RelPermParams, relative_permeabilities_twophase

    from bluebonnet.flow import relative_permeabilities

    tab = mp.build(case["table"], case["Sw"])
    if case.get("mu_unit", 0) or case.get("p_unit", 1.0) != 1.0:
        tab = dict(tab)
        for k in ("mu_o", "mu_g", "mu_w"):
            tab[k] = np.asarray(tab[k], float) * 10.0 ** case.get("mu_unit", 0)
        tab["pressure"] = np.asarray(tab["pressure"], float) * case.get("p_unit", 1.0)
    sw = case["Sw"]
    params = RelPermParams(**case["relperm"])
    if sw <= case["relperm"]["S_wc"]:
        df_kr = lib("relative_permeabilities_twophase", relative_permeabilities_twophase, params, sw)
        kr_table = {k: np.asarray(df_kr[k], float) for k in ("So", "Sg", "Sw", "kro", "krg", "krw")}
    else:  # three mobile phases: a saturation sweep at fixed (mobile) water saturation
        so = np.linspace(0.0, 1.0 - sw, 50)
        recs = np.array(list(zip(so, np.full(50, sw), 1.0 - sw - so)), dtype=[("So", "f8"), ("Sw", "f8"), ("Sg", "f8")])
        k = lib("relative_permeabilities", relative_permeabilities, recs, params)
        kr_table = {"So": so, "Sw": recs["Sw"], "Sg": recs["Sg"], "kro": np.asarray(k["kro"], float), "krg": np.asarray(k["krg"], float), "krw": np.asarray(k["krw"], float)}
    return tab, kr_table


def check_case(case) -> Result:
    from bluebonnet.flow import FlowPropertiesTwoPhase
    from bluebonnet.flow.flowproperties import pseudopressure_threephase

    res = Result()
    tab, kr_table = setup(case)
    rho = case["rho"]
    p, so = tab["pressure"], tab["So"]
    res.labels["table"] = case["table"]["family"]
    kr_h = mp.kr_lookup(kr_table)
    lam = mp.mobility_doc(tab, kr_h, rho, p, so)
    if not np.all(np.isfinite(lam)) or np.any(lam < 0):
        res.skipped = "harness mobility not finite / negative (inadmissible table)"
        return res
    want = np.concatenate([[0.0], np.cumsum(0.5 * (lam[1:] + lam[:-1]) * np.diff(p))])
    pvt = mp.library_pvt_dict(tab, rho)
    kr = mp.library_kr_dict(kr_table)
    m = np.asarray(lib("pseudopressure_threephase", pseudopressure_threephase, p, so, pvt, kr), float)
    if m.shape != p.shape:
        res.bad("C15/shape", f"pseudopressure shape {m.shape} for {p.shape} pressures")
        return res
    if m[0] != 0.0:
        res.bad("C15/zero-at-first-pressure", f"multiphase pseudopressure at the first table pressure is {m[0]!r}")
    scale = max(float(want[-1]), 1e-300)
    k = int(np.argmax(np.abs(m - want)))
    res.check("C15/integral-of-mobility", float(np.max(np.abs(m - want))), 1e-10 * scale, f"row {k} (p={p[k]!r}): library {m[k]!r}, trapezoid of the documented mobility {want[k]!r} ({case['table']['family']} table, {len(p)} rows);")
    inc = np.diff(m)
    pos = (lam[1:] > 0) | (lam[:-1] > 0)
    if np.any(inc[pos] <= 0):
        j = int(np.flatnonzero(pos & (inc <= 0))[0])
        res.bad("C15/increasing-where-mobility-positive", f"pseudopressure does not increase between p={p[j]!r} and p={p[j + 1]!r} ({m[j]!r} -> {m[j + 1]!r}) although mobility is positive there")
    # scaling with a constant factor applied to mobility (all reference densities times 2^k: exact)
    f = 2.0 ** case["scale_exp"]
    rho2 = {k2: v * f for k2, v in rho.items()}
    m2 = np.asarray(lib("pseudopressure_threephase(scaled)", pseudopressure_threephase, p, so, mp.library_pvt_dict(tab, rho2), kr), float)
    if not np.array_equal(m2, m * f):
        j = int(np.argmax(np.abs(m2 - m * f)))
        res.check("C15/scales-with-mobility", float(abs(m2[j] - m[j] * f)), 1e-14 * abs(m[j] * f), f"reference densities x{f!r}: row {j} gives {m2[j]!r}, expected {m[j] * f!r};")
    res.nontrivial = bool(len(p) >= 4 and np.count_nonzero(lam > 0) >= 3)
    # ---- derived scaled pseudopressure through the wrapper -------------------------------------------
    n = len(p)
    ki = min(n - 1, max(2, int(round(case["pi_frac"] * (n - 1)))))
    p_i = float(p[ki])
    off = case.get("pi_offnode", 0.0)
    if off and ki >= 3:
        p_i = float(p[ki - 1] + off * (p[ki] - p[ki - 1]))  # between rows ki-1 and ki
    p_f = float(p[0] + case["pf_frac"] * (p_i - p[0]))
    res.labels["mobile_water"] = bool(case["Sw"] > case["relperm"]["S_wc"])
    if case["Sw"] > case["relperm"]["S_wc"]:
        res.labels["from_table"] = "skipped: mobile water (from_table documents Sw <= residual)"
        return res
    if not (want[ki] > 0 and want[1] > 0):
        res.labels["from_table"] = "skipped: zero mobility below p_i"
        return res
    if not float(np.interp(p_i, p, want)) > float(np.interp(p_f, p, want)):
        # no mobility anywhere between the frac-face and the initial pressure (a component left out of the mass balance
        # can leave such a stretch): both map to the same value and "into [0, 1)" has no content
        res.labels["from_table"] = "skipped: zero mobility between p_f and p_i"
        return res
    # total compressibility must be positive for the wrapper's diffusivity to make sense
    st_hi = mp.storage_doc(tab, rho, case["phi"], case["Sw"], p + 0.5, so)
    st_lo = mp.storage_doc(tab, rho, case["phi"], case["Sw"], p - 0.5, so)
    if not np.all(st_hi - st_lo > 0):
        res.labels["from_table"] = "skipped: non-positive storage derivative"
        return res
    import warnings

    tab_in = dict(tab)
    kr_rows = case.get("kr_rows", "ascending-So")
    res.labels["kr_rows"] = kr_rows
    if kr_rows != "ascending-So":
        nk = len(kr_table["So"])
        order = np.arange(nk)[::-1] if kr_rows == "descending-So" else np.concatenate([np.arange(1, nk, 2), np.arange(0, nk, 2)[::-1]])
        kr_table = {k: np.asarray(v)[order].copy() for k, v in kr_table.items()}
    res.labels["container"] = case["container"]
    if case["container"].startswith("dataframe"):
        import pandas as pd

        tab_in = pd.DataFrame(tab_in)
        kr_in = pd.DataFrame(kr_table)
        if case["container"] == "dataframe-offset-index":
            tab_in.index = np.arange(len(tab_in)) + 1000
        elif case["container"] == "dataframe-permuted-index":
            tab_in.index = np.arange(len(tab_in))[::-1]
            kr_in.index = np.arange(len(kr_in))[::-1]
    else:
        kr_in = dict(kr_table)
    with warnings.catch_warnings():
        warnings.simplefilter("ignore")
        fp = lib("FlowPropertiesTwoPhase.from_table", FlowPropertiesTwoPhase.from_table, tab_in, kr_in, dict(rho), case["phi"], case["Sw"], p_i)
    ms = np.asarray(fp.pvt_props["m-scaled"], float)
    fin = np.isfinite(ms)
    if not np.all(fin):
        res.bad("C15/scaled-pseudopressure-increasing", f"m-scaled of from_table has non-finite entries at rows {np.flatnonzero(~fin)[:3]}")
        return res
    on_node = p_i == float(p[ki])
    m_at_pi = float(np.interp(p_i, p, want))
    res.check("C15/scaled-pseudopressure-derived-from-integral", float(np.max(np.abs(ms * (want[ki] if on_node else 1.0) - (want if on_node else want * ms[-1] / want[-1])))), 1e-10 * float(want[-1]) * (1.0 if on_node else max(1.0, ms[-1] / want[-1])), f"from_table: m-scaled * m(p_i) differs from the integral of the documented mobility (p_i={p_i!r});")
    inc = np.diff(ms)
    if np.any(inc[pos] <= 0):
        j = int(np.flatnonzero(pos & (inc <= 0))[0])
        res.bad("C15/scaled-pseudopressure-increasing", f"from_table: m-scaled does not increase between p={p[j]!r} and {p[j + 1]!r}: {ms[j]!r} -> {ms[j + 1]!r}")
    m_i = float(fp.m_i)
    if on_node:
        res.check("C15/scaled-pseudopressure-is-1-at-p_i", abs(m_i - 1.0), 1e-12, f"from_table: m_i={m_i!r} at the node p_i={p_i!r};")
    else:
        # between rows k, k+1 the wrapper multiplies the linear interpolants of m and 1/m: 1 <= m_i <= 1 + (dm)^2/(4 m_k m_k+1)
        cap = (want[ki] - want[ki - 1]) ** 2 / (4 * want[ki] * want[ki - 1])
        if not (1.0 - 1e-12 <= m_i <= 1.0 + cap * (1 + 1e-9) + 1e-12):
            res.bad("C15/scaled-pseudopressure-is-1-at-p_i", f"from_table: m_i={m_i!r} for p_i={p_i!r} between rows {p[ki - 1]!r} and {p[ki]!r}; expected within [1, 1+{cap!r}]")
        at = float(lib("m_scaled_func", fp.m_scaled_func, p_i))
        res.check("C15/scaled-pseudopressure-is-1-at-p_i", abs(at - m_i), 1e-13 * abs(m_i), f"from_table: m_scaled_func(p_i)={at!r} vs m_i={m_i!r};")
    res.labels["p_i_on_node"] = on_node
    mf = float(lib("m_scaled_func", fp.m_scaled_func, p_f))
    # p_i on a row: [0, 1).  p_i between rows k-1 and k: the wrapper's m_i is 1 + (interpolation error of 1/m), so a
    # frac-face pressure inside that same interval can only be required to stay below m_i; from the row below p_i
    # downwards the scaled value is at most m_{k-1} * interp(1/m)(p_i) <= 1
    upper = 1.0 if (on_node or p_f <= float(p[ki - 1])) else m_i
    if not (0.0 <= mf < upper or (mf == upper == 1.0 and not on_node)):
        res.bad("C15/frac-face-maps-into-unit-interval", f"from_table: scaled pseudopressure at p_f={p_f!r} is {mf!r} (p_i={p_i!r}, m_i={m_i!r}, rows around p_i: {p[ki - 1]!r}, {p[ki]!r})")
    res.labels["from_table"] = "checked"
    # the object is a function of the tables it was built from: the caller overwriting its own arrays afterwards (another
    # unit system, buffers re-used for the next well) must not change it
    pq = np.array([p_i, p_f, float(p[len(p) // 2])])
    ms = ms.copy()
    from vf import tables as _tables

    _tables.copies_agree(res, "C15/copy-is-the-same-fluid", fp, pq, np.concatenate([ms, [ms[0] - 1.0, ms[-1] * 2 + 1.0]]), f"from_table ({case['container']})")
    before = (np.asarray(fp.m_scaled_func(pq), float).copy(), float(fp.m_i), np.asarray(fp.alpha(ms), float).copy())
    from vf import tables as _tables

    _tables.scribble(tab_in)
    _tables.scribble(kr_in)
    after = (np.asarray(lib("m_scaled_func", fp.m_scaled_func, pq), float), float(fp.m_i), np.asarray(lib("alpha", fp.alpha, ms), float))
    for name, b, a in zip(("m_scaled_func at p_i, p_f and a table pressure", "m_i", "alpha looked up at the node values"), before, after):
        if np.shape(a) != np.shape(b) or not np.array_equal(a, b, equal_nan=True):
            res.bad("C15/independent-of-later-changes-to-the-callers-tables", f"from_table ({case['container']}): {name} changed after the caller overwrote its own tables in place: {b!r} -> {a!r}")
            break
    return res
