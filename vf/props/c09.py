"""C09 - Flow-property wrapper: monotone transform, bounded positive diffusivity."""

from __future__ import annotations

import math

import numpy as np
from hypothesis import strategies as st

from vf import tables
from vf.core import Result, lib

ID = "C09"
TITLE = "Flow-property wrapper: monotone transform, bounded positive diffusivity"
LEVEL = "exploration"
BUDGET = {"quick": 6000, "thorough": 800000}
SHRINK = {"quick": True, "thorough": True}
FUZZ = {"thorough": 3000}  # executions per atheris process (16 processes), after the Hypothesis search
RULE = (
    "Hypothesis draws a table (shipped CSVs thinned/cropped, synthetic families on uniform/geometric/jittered grids, "
    "small library-built tables) as DataFrame or dict of arrays, a variant (standard columns, user-supplied 'alpha' "
    "column with a positive pseudopressure offset, simple-liquid wrapper, rescale_pseudopressure), an initial "
    "pressure on / off a node (or outside the table, or a missing column, for the rejection cases) and 8 lookup "
    "arguments from (-1e300, 1e300) including values between, at and beyond the nodes. Non-trivial = a valid "
    "construction with p_i off a node or a lookup outside the table's range, or a rejection / non-mutation case on "
    "a dict. After every valid construction the caller's own table is overwritten in place (tables.scribble) and the object's "
    "m_scaled_func, diffusivity lookup and m_i must be what they were. Distinct = hash of the case record."
    " Every valid wrapper is also copied (copy.copy, copy.deepcopy, pickle round trip) and each copy must give the original's m_i, m_scaled_func and diffusivity lookups (inside and outside the table)."
)
ASSUMPTIONS = [
    "tables have increasing pressure and positive properties (rows with p <= 0 of the shipped CSVs are dropped)",
    "with a user-supplied diffusivity the scaled pseudopressure at p_i between nodes k, k+1 is the product of the linear interpolants of m and 1/m, hence within [1, 1 + (m_{k+1}-m_k)^2 / (4 m_k m_{k+1})]",
    "lookup arguments are finite reals (|q| <= 1e300); 'error' accepts any exception type",
]
LEVEL_TEXT = (
    "A model of the wrapper (monotone column, reported m_i, node values of the diffusivity, clipped lookup, "
    "non-mutation snapshot, rejections) checked over generated tables, containers and queries. Exploration."
)

LONG = ("pseudopressure", "compressibility", "pressure", "viscosity", "z-factor")


@st.composite
def strategy_(draw):
    spec = draw(tables.table_spec(nmax=80))
    variant = draw(st.sampled_from(["standard", "standard", "alpha", "simple", "rescale", "reject-missing", "reject-outside"]))
    c = {
        "table": spec,
        "container": draw(st.sampled_from(tables.CONTAINERS)),
        "variant": variant,
        "pair": draw(tables.pressure_pair()),
        "queries": [draw(st.one_of(st.floats(-0.5, 2.0), st.floats(-1e300, 1e300), st.sampled_from([0.0, 1.0, -1e-300, 1e-300]))) for _ in range(8)],
        "extra_column": draw(st.booleans()),
    }
    if variant == "alpha":
        c["m_offset"] = draw(st.floats(1e-3, 10.0))
        c["int_pseudopressure"] = draw(st.integers(0, 2)) == 0  # whole numbers read from a CSV come as int64
    if variant == "rescale":
        # frac-face pressure from the generated pair, or exactly the first table row with the pseudopressure column
        # referenced to that row (m(p_f) == 0 exactly, as for a table integrated from its own first pressure)
        c["pf_mode"] = draw(st.sampled_from(["pair", "pair", "first-row-zero", "node"]))
    if variant == "reject-missing":
        c["drop"] = draw(st.sampled_from(["pseudopressure", "compressibility", "pressure", "viscosity", "z-factor"]))
        c["wrapper"] = draw(st.sampled_from(["standard", "simple"]))
    if variant == "reject-outside":
        c["side"] = draw(st.sampled_from(["below", "above"]))
        c["excess"] = draw(st.floats(1e-9, 10.0))
        c["wrapper"] = draw(st.sampled_from(["standard", "simple", "alpha"]))
    return c


def strategy(tier):
    return strategy_()


def _snapshot(t):
    keys = list(t.keys())
    return keys, {k: np.array(t[k], copy=True) for k in keys}


def _unchanged(res, t, snap, what):
    keys, vals = snap
    now = list(t.keys())
    if now != keys:
        res.bad("C09/caller-table-unmodified", f"{what}: caller's columns changed from {keys} to {now}")
        return
    for k in keys:
        a = np.asarray(t[k])
        if a.shape != vals[k].shape or not np.array_equal(a, vals[k], equal_nan=True):
            res.bad("C09/caller-table-unmodified", f"{what}: caller's column {k!r} was modified")
            return


def _lookup_checks(res, fluid, tab_alpha, ms, queries, what):
    lo, hi = float(np.min(tab_alpha)), float(np.max(tab_alpha))
    qs = list(queries) + [float(ms[0]), float(ms[-1]), float(0.5 * (ms[0] + ms[1])), float(np.nextafter(ms[0], -np.inf)), float(np.nextafter(ms[-1], np.inf))]
    # scale the unit-interval queries into the table's m-scaled range so that they fall between nodes
    qs += [float(ms[0] + q * (ms[-1] - ms[0])) for q in queries if -0.5 <= q <= 2.0]
    outside = False
    for q in qs:
        v = lib("alpha lookup", fluid.alpha, q)
        v = float(v)
        outside = outside or q < ms[0] or q > ms[-1]
        if not math.isfinite(v):
            res.bad("C09/lookup-finite", f"{what}: alpha({q!r}) = {v!r} (table m-scaled range [{ms[0]!r}, {ms[-1]!r}])")
            return outside
        slack = 1e-12 * hi
        if v < lo - slack or v > hi + slack:
            res.bad("C09/lookup-within-table-range", f"{what}: alpha({q!r}) = {v!r} outside the table's range [{lo!r}, {hi!r}]")
            return outside
    va = np.asarray(fluid.alpha(np.array(qs)), float)
    if va.shape != (len(qs),) or not np.all(np.isfinite(va)) or np.any(va < lo * (1 - 1e-12)) or np.any(va > hi * (1 + 1e-12)):
        res.bad("C09/lookup-within-table-range", f"{what}: vectorised alpha lookup leaves [{lo!r}, {hi!r}] or is not finite")
    return outside


def check_case(case) -> Result:
    from bluebonnet.flow import FlowProperties, rescale_pseudopressure
    from bluebonnet.flow.flowproperties import FlowPropertiesSimple

    res = Result()
    variant = case["variant"]
    res.labels["variant"] = variant
    res.labels["container"] = case["container"]
    res.labels["table"] = case["table"]["family"]
    tab = tables.build(case["table"])
    if case["extra_column"]:
        tab["temperature"] = np.full(len(tab["pressure"]), 300.0)
    p = tab["pressure"]
    p_f, p_i = tables.resolve_pair(tab, case["pair"])
    on_node = bool(np.any(p == p_i))
    res.labels["p_i_on_node"] = on_node

    if variant in ("reject-missing", "reject-outside"):
        wrapper = case["wrapper"]
        t = dict(tab)
        if wrapper == "alpha":
            t = {"pressure": tab["pressure"], "pseudopressure": tab["pseudopressure"] + 1.0, "alpha": 1 / (tab["compressibility"] * tab["viscosity"])}
        if variant == "reject-missing":
            drop = case["drop"]
            if wrapper == "simple" and drop in ("pseudopressure", "z-factor"):
                drop = "viscosity"
            t.pop(drop)
            pi = p_i
            why = f"column {drop!r} missing"
        else:
            pi = (p[0] - case["excess"] * max(1.0, p[0] * 1e-3)) if case["side"] == "below" else (p[-1] + case["excess"] * max(1.0, p[-1] * 1e-3))
            why = f"p_i={pi!r} outside the table [{p[0]!r}, {p[-1]!r}]"
        t = tables.as_container(t, case["container"])
        snap = _snapshot(t)
        cls = FlowPropertiesSimple if wrapper == "simple" else FlowProperties
        try:
            cls(t, pi)
        except Exception:  # noqa: BLE001
            _unchanged(res, t, snap, f"{cls.__name__} (rejected input)")
            res.nontrivial = True
            return res
        res.bad("C09/rejects-bad-input", f"{cls.__name__} accepted a table with {why}")
        return res

    if variant == "rescale":
        mode = case.get("pf_mode", "pair")
        res.labels["pf_mode"] = mode
        if mode == "first-row-zero":
            tab = dict(tab)
            tab["pseudopressure"] = tab["pseudopressure"] - tab["pseudopressure"][0]
            p_f = float(p[0])
        elif mode == "node":
            k = int(np.searchsorted(p, p_f))
            k = min(max(k, 0), len(p) - 1)
            if p[k] < p_i:
                p_f = float(p[k])
        t = tables.as_container(tab, case["container"])
        snap = _snapshot(t)
        out = lib("rescale_pseudopressure", rescale_pseudopressure, t, p_f, p_i)
        _unchanged(res, t, snap, "rescale_pseudopressure")
        if out is t:
            res.bad("C09/caller-table-unmodified", "rescale_pseudopressure returned the caller's own object")
        newm = np.asarray(out["pseudopressure"], float)
        newp = np.asarray(out["pressure"], float)
        if not np.array_equal(newp, p):
            res.bad("C09/rescale-maps-pf-to-0-pi-to-1", "rescale_pseudopressure changed the pressure column")
            return res
        at_f, at_i = float(np.interp(p_f, newp, newm)), float(np.interp(p_i, newp, newm))
        scale = max(1.0, float(np.max(np.abs(newm))))
        res.check("C09/rescale-maps-pf-to-0-pi-to-1", abs(at_f), 1e-11 * scale, f"rescaled pseudopressure at p_f={p_f!r} is {at_f!r};")
        res.check("C09/rescale-maps-pf-to-0-pi-to-1", abs(at_i - 1.0), 1e-11 * scale, f"rescaled pseudopressure at p_i={p_i!r} is {at_i!r};")
        if not np.all(np.diff(newm) > 0):
            res.bad("C09/scaled-pseudopressure-increasing", "rescaled pseudopressure is not strictly increasing")
        res.nontrivial = case["container"].startswith("dict") or not on_node
        return res

    # ---- constructions -----------------------------------------------------------------------------
    if variant == "alpha":
        t = {"pressure": tab["pressure"], "pseudopressure": tab["pseudopressure"] + case["m_offset"] * max(float(tab["pseudopressure"][-1]), 1e-300), "alpha": 1 / (tab["compressibility"] * tab["viscosity"])}
        if case.get("int_pseudopressure"):
            # whole-number pseudopressures held in an integer column (scaled so that rounding keeps them increasing)
            col = t["pseudopressure"]
            scale = 1e6 / max(float(np.min(np.diff(col))), 1e-300) if float(np.min(np.diff(col))) < 1e3 else 1.0
            if float(np.max(np.abs(col))) * scale < 4e18:  # representable in int64 (other units of viscosity / pressure)
                t["pseudopressure"] = np.rint(col * scale).astype(np.int64)
                res.labels["pseudopressure_dtype"] = "int64"
        if case["extra_column"]:
            for k in ("compressibility", "viscosity", "z-factor"):
                t[k] = tab[k]
        cls = FlowProperties
    elif variant == "simple":
        t = {k: tab[k] for k in ("pressure", "compressibility", "viscosity")}
        if case["extra_column"]:
            t["pseudopressure"] = tab["pseudopressure"]
        cls = FlowPropertiesSimple
    else:
        t = dict(tab)
        cls = FlowProperties
    t = tables.as_container(t, case["container"])
    snap = _snapshot(t)
    fluid = lib(cls.__name__, cls, t, p_i)
    _unchanged(res, t, snap, cls.__name__)
    props = fluid.pvt_props
    if props is t:
        res.bad("C09/caller-table-unmodified", f"{cls.__name__}.pvt_props is the caller's own object")
    ms = np.asarray(props["m-scaled"], float)
    al = np.asarray(props["alpha"], float)
    if ms.shape != p.shape or al.shape != p.shape:
        res.bad("C09/columns", f"m-scaled / alpha columns have shapes {ms.shape} / {al.shape} for {p.shape} rows")
        return res
    if not np.all(np.isfinite(ms)) or not np.all(np.diff(ms) > 0):
        k = int(np.argmin(np.diff(ms))) if np.all(np.isfinite(ms)) else -1
        res.bad("C09/scaled-pseudopressure-increasing", f"{cls.__name__}: m-scaled not strictly increasing (rows {k},{k + 1}: {ms[k]!r}, {ms[k + 1]!r})")
        return res
    m_i = float(fluid.m_i)
    at = float(lib("m_scaled_func", fluid.m_scaled_func, p_i))
    res.check("C09/m_i-is-scaled-pseudopressure-at-p_i", abs(at - m_i), 1e-14 * abs(m_i), f"m_scaled_func(p_i)={at!r} vs m_i={m_i!r};")
    lin = float(np.interp(p_i, p, ms))
    res.check("C09/m_i-is-scaled-pseudopressure-at-p_i", abs(lin - m_i), 1e-12 * abs(m_i), f"m_i={m_i!r} vs interpolation of the m-scaled column at p_i ({lin!r});")
    want_alpha = 1 / (tab["compressibility"] * tab["viscosity"])
    res.check("C09/alpha-at-nodes", float(np.max(np.abs(al - want_alpha) / want_alpha)), 1e-13, f"{cls.__name__}: alpha column vs 1/(c mu);")
    node_lookup = np.asarray(fluid.alpha(ms), float)
    res.check("C09/alpha-at-nodes", float(np.max(np.abs(node_lookup - want_alpha) / want_alpha)), 1e-12, f"{cls.__name__}: alpha looked up at the nodes vs 1/(c mu);")
    if variant == "alpha":
        mcol = np.asarray(t["pseudopressure"], float)
        k = int(np.searchsorted(p, p_i, side="right") - 1)
        k = min(max(k, 0), len(p) - 2)
        if on_node:
            res.check("C09/alpha-branch-m_i", abs(m_i - 1.0), 1e-13, f"user diffusivity, p_i on a node: m_i={m_i!r};")
        else:
            cap = (mcol[k + 1] - mcol[k]) ** 2 / (4 * mcol[k] * mcol[k + 1])
            if not (1.0 - 1e-13 <= m_i <= 1.0 + cap * (1 + 1e-9) + 1e-13):
                res.bad("C09/alpha-branch-m_i", f"user diffusivity, p_i between nodes: m_i={m_i!r} not in [1, 1+{cap!r}]")
        fq = float(fluid.m_scaled_func(p_f))
        if not (0 < fq < m_i):
            res.bad("C09/scaled-pseudopressure-increasing", f"user diffusivity: scaled pseudopressure at p_f ({fq!r}) not below m_i ({m_i!r})")
    if variant == "simple":
        # m_i is an interpolation of the identity at p_i: any interpolation routine may be an ulp or two off
        if not np.array_equal(ms, p) or abs(m_i - p_i) > 1e-14 * abs(p_i):
            res.bad("C09/simple-wrapper", f"simple wrapper: m-scaled is not the pressure column or m_i={m_i!r} != p_i={p_i!r}")
    if variant == "standard":
        # the documented scaling: m-scaled = m * (c mu z / 2p)(p_i), the factor interpolated linearly in pressure
        factor = float(np.interp(p_i, p, 0.5 * tab["compressibility"] * tab["viscosity"] * tab["z-factor"] / p))
        res.check("C09/scaling-factor", float(np.max(np.abs(ms - tab["pseudopressure"] * factor))), 1e-12 * float(np.max(np.abs(ms))), "m-scaled vs pseudopressure * (c mu z / 2p)(p_i);")
    outside = _lookup_checks(res, fluid, al, ms, case["queries"], cls.__name__)
    res.nontrivial = bool((not on_node) or outside)
    # the wrapper is a function of the table it was given: when the caller later overwrites its own arrays (converts the
    # pressures to another unit, re-uses the buffers for the next well) the object in hand must not change
    pq = np.array([p_i, p_f, 0.5 * (p[0] + p[1]), float(p[len(p) // 2])])
    pq = pq[(pq >= p[0]) & (pq <= p[-1])]
    # (asserted for the object's functions and m_i; the `pvt_props` attribute of a wrapper built from a dict shares the
    # arrays of the columns it did not create with the caller - observed on the unchanged tree, not part of C09)
    mq = ms.copy()
    tables.copies_agree(res, "C09/copy-is-the-same-fluid", fluid, pq, np.concatenate([mq, [mq[0] - 1.0, mq[-1] * 2 + 1.0, -1e300, 1e300]]), f"{cls.__name__} ({case['container']})")
    before = (np.asarray(fluid.m_scaled_func(pq), float).copy(), np.asarray(fluid.alpha(mq), float).copy(), float(fluid.m_i))
    tables.scribble(t)
    after = (np.asarray(lib("m_scaled_func", fluid.m_scaled_func, pq), float), np.asarray(lib("alpha", fluid.alpha, mq), float), float(fluid.m_i))
    names = ("m_scaled_func at p_i, p_f and two table pressures", "alpha looked up at the node values", "m_i")
    for name, b, a in zip(names, before, after):
        if np.shape(a) != np.shape(b) or not np.array_equal(a, b, equal_nan=True):
            res.bad("C09/independent-of-later-changes-to-the-callers-table", f"{cls.__name__} ({case['container']}): {name} changed after the caller overwrote its own table in place: {b!r} -> {a!r}")
            break
    return res
