"""C04 - Each time level is the implicit backward-Euler update of the previous one."""

from __future__ import annotations

import numpy as np
from hypothesis import strategies as st
from scipy.linalg import solve_banded

from vf import flowcase
from vf.core import LibRaised, Result
from vf.intercept import Intercept

ID = "C04"
TITLE = "Each time level is the implicit backward-Euler update of the previous one"
LEVEL = "fault_enumeration"
BUDGET = {"quick": 4000, "thorough": 400000}
SHRINK = {"quick": False, "thorough": True}
TIME_LIMIT = {"quick": 150, "thorough": 3300}
RULE = (
    "Cases as C01 (tables x pressure pairs x nx 3..400 x time grids x schedules x {single-phase, ideal, two-phase on the shipped oil+water tables}) "
    "with time grids biased to non-uniform ones. Every step of every run is checked: residual of the stored new "
    "level in the backward-Euler rows j>=1 (interior and no-flow row) built by the harness from the previous "
    "level, that step's time increment and reservoir.alpha_scaled(previous level), with one mesh constant 1/h^2 "
    "fitted by least squares over the whole run; forward error against the harness's own banded solve of rows "
    ">= 1. All Krylov solvers of scipy.sparse.linalg are wrapped for the run (flag and true residual recorded). "
    "Fault injection: one run in four is repeated with the k-th Krylov solve truncated to one iteration "
    "(genuine info > 0) for a generated k; the run must raise or still satisfy the residual oracle. "
    "Non-trivial = >= 3 steps with pairwise different time increments and max mesh ratio*diffusivity > 10. "
    "Distinct = hash of the case record."
    " One case in nine runs on a copied / pickled fluid or a deep-copied reservoir; one single-phase case in six on a subclass overriding alpha_scaled (the residual is formed with the object's own hook); one case in forty on a grid of 1500..4500 nodes with 2..5 steps."
)
ASSUMPTIONS = [
    "the diffusivity of the step is the library's own reservoir.alpha_scaled evaluated at min(previous level, m_i) (the lookup itself is C09's subject)",
    "residual tolerance 200 eps (1 + 4 max k) max|b| per step; forward error 1e-9 |u|_inf + 1e-6 drawdown",
    "the mesh constant is not prescribed: it is fitted and must lie in [(nx-1)^2, (nx+1)^2]",
    "row 0 (frac-face row) is C01's subject: the stored value at node 0 is taken as boundary data",
    "fault injection applies to Krylov solvers only; when the code under test uses a direct solve (as the repaired tree does) zero Krylov calls are observed and the residual / forward-error oracles carry the property",
]
LEVEL_TEXT = (
    "Every step of every generated run is re-derived by the harness (dense residual and an independent banded "
    "solve) and iterative-solver calls are intercepted; faults (truncated k-th solve) are enumerated over "
    "generated positions when an iterative solver is in use. Finds index shifts, lagged increments, wrong "
    "outer row, loose or unchecked solves on the explored runs."
)
LEVEL_NOTE = (
    "Trusted: NumPy/SciPy (solve_banded), the library's own alpha_scaled lookup, Hypothesis. With the repaired "
    "tree's direct sparse solve no Krylov call exists, so the fault enumeration is empty there (reported in "
    "evidence as krylov_calls=0)."
)

TINY = float(np.finfo(float).tiny)
EPS = float(np.finfo(float).eps)


def strategy(tier):
    kinds = ("uniform", "quadratic", "geometric", "geometric", "random", "random", "big", "repeat")
    classes = ("single", "single", "single", "single", "single", "ideal", "ideal", "twophase")
    base = flowcase.sim_case(nx_max=400, max_steps=120, time_kinds=kinds, classes=classes, subclasses=True, big_nx=True) if tier == "quick" else flowcase.sim_case(nx_max=400, max_steps=800, table_nmax=400, time_kinds=kinds, classes=classes, subclasses=True, big_nx=True)
    return st.tuples(base, st.integers(0, 3), st.floats(0.0, 1.0)).map(lambda t: {**t[0], "fault_roll": t[1], "fault_pos": t[2]})


def step_terms(r: flowcase.Run):
    """Per step: previous-level vector b, diffusivity a(b), new level u, dt."""
    m, t = r.m, r.time
    out = []
    for i in range(len(t) - 1):
        if r.case["cls"] == "ideal":
            b = m[i].copy()
        else:
            b = np.minimum(m[i], r.m_i)
            b[0] = r.m_f[i]
        a = r.alpha_scaled(b)
        out.append((b, a, m[i + 1], float(t[i + 1] - t[i])))
    return out


def lap_rows(u):
    """(L u)_j for rows j >= 1 of the documented operator (no-flow closure in the last row), without 1/h^2."""
    lu = np.empty(len(u) - 1)
    lu[:-1] = 2 * u[1:-1] - u[:-2] - u[2:]
    lu[-1] = u[-1] - u[-2]
    return lu


def fit_mesh_constant(terms, nx):
    """Least-squares 1/h^2 over the whole run: minimise sum_i |R_i(c)|^2 / tol_i^2 -> (c, relative uncertainty).

    Only steps that carry information enter the fit: both the change b - u and the curvature L u must be
    resolved to at least 1e-6 relative to rounding noise (fully relaxed steps with mesh ratios of 1e15 are pure
    cancellation noise in L u).  Each step is weighted by the inverse of its own rounding scale.  If no step
    qualifies the constant is not observable from the stored field and (None, None) is returned."""
    num = den = 0.0
    rel_unc = 0.0
    c0 = float(nx * nx)
    for b, a, u, dt in terms:
        bmax = max(float(np.max(np.abs(b))), 1e-300)
        lu = lap_rows(u)
        change = float(np.max(np.abs(b[1:] - u[1:])))
        curv = float(np.max(np.abs(lu)))
        if not (change > 1e6 * EPS * bmax and curv > 1e6 * EPS * bmax):
            continue
        w = 1.0 / ((1 + 4 * c0 * dt * float(np.max(a))) * bmax)
        g = dt * a[1:] * lu * w
        num += float(np.dot((b[1:] - u[1:]) * w, g))
        den += float(np.dot(g, g))
        rel_unc = max(rel_unc, 8 * EPS * bmax * (1 / change + 1 / curv))
    if not den > 0:
        return None, None
    return num / den, rel_unc


def residual_check(res, r, terms, c, tag=""):
    worst_step, worst = -1, 0.0
    for i, (b, a, u, dt) in enumerate(terms):
        k = c * dt * a
        R = u[1:] - b[1:] + k[1:] * lap_rows(u)
        # below the smallest normal number (fully relaxed ideal runs reach 1e-320) values carry an absolute rounding
        # error of tiny * eps instead of a relative one
        tol = 200 * EPS * (1 + 4 * float(np.max(k))) * max(float(np.max(np.abs(b))), TINY)
        ratio = float(np.max(np.abs(R))) / tol
        if not ratio <= worst:  # also NaN
            worst, worst_step = ratio, i
    if worst_step >= 0:
        b, a, u, dt = terms[worst_step]
        k = c * dt * a
        R = u[1:] - b[1:] + k[1:] * lap_rows(u)
        j = int(np.argmax(np.abs(R))) + 1
        tol = 200 * EPS * (1 + 4 * float(np.max(k))) * max(float(np.max(np.abs(b))), TINY)
        res.check(
            f"C04/step-residual{tag}",
            float(np.max(np.abs(R))),
            tol,
            f"step {worst_step}->{worst_step + 1} (dt={dt!r}, max k={float(np.max(k))!r}, nx={len(u)}, 1/h^2={c!r}) row {j}: residual {R[j - 1]!r} relative to rhs {float(np.max(np.abs(b)))!r};",
        )


def forward_check(res, r, terms, c):
    worst = (0.0, None)
    for i, (b, a, u, dt) in enumerate(terms):
        k = (c * dt * a)[1:]
        n = len(k)
        if n < 2:
            continue
        ab = np.zeros((3, n))
        ab[1] = 1 + 2 * k
        ab[1, -1] = 1 + k[-1]
        ab[0, 1:] = -k[:-1]
        ab[2, :-1] = -k[1:]
        rhs = b[1:].copy()
        rhs[0] += k[0] * u[0]
        ref = solve_banded((1, 1), ab, rhs)
        err = float(np.max(np.abs(ref - u[1:])))
        tol = 1e-9 * float(np.max(np.abs(u))) + 1e-6 * r.d
        if not err / tol <= worst[0]:
            worst = (err / tol, (i, err, tol, dt))
    if worst[1] is not None:
        i, err, tol, dt = worst[1]
        res.check("C04/forward-error", err, tol, f"step {i}->{i + 1} (dt={dt!r}, nx={r.case['nx']}): stored level differs from the harness's banded solve of the same rows by {err!r};")


def check_case(case) -> Result:
    res = Result()
    try:
        with Intercept() as ic:
            r = flowcase.run(case)
    except flowcase.Inadmissible as e:
        res.skipped = str(e)
        return res
    res.labels.update(flowcase.labels(case, r))
    if not flowcase.sound_field(r.res, r, res):
        return res
    terms = step_terms(r)
    dts = np.diff(r.time)
    c, c_unc = fit_mesh_constant(terms, case["nx"])
    nx = case["nx"]
    lo, hi = (nx - 1) ** 2, (nx + 1) ** 2
    if c is None:
        # the constant is not observable from this run (no step with resolved change and curvature): the
        # residual is insensitive to it, any admissible value serves
        c = float(nx * nx) if case["cls"] != "ideal" else float((nx - 1) ** 2)
        res.labels["mesh_constant"] = "not observable"
    else:
        slack = (1e-9 + 4 * c_unc) * c
        if not (lo - slack <= c <= hi + slack):
            res.bad("C04/mesh-constant", f"fitted 1/h^2 = {c!r} (relative uncertainty {c_unc!r}) outside [{lo}, {hi}] for nx={nx}")
            return res
        res.margins["C04/mesh-constant"] = 0.0
        res.labels["mesh_constant"] = "fitted"
    residual_check(res, r, terms, c)
    forward_check(res, r, terms, c)
    # solver flags seen during the run
    n_calls = len(ic.calls)
    res.counts["krylov_calls"] = n_calls
    res.counts["steps_checked"] = len(terms)
    bad_flags = [q for q in ic.calls if q["info"] not in (0, None) or not q["relres"] <= 1e-10]
    res.counts["krylov_calls_unconverged_or_loose"] = len(bad_flags)
    if bad_flags and not any(v.oracle.startswith("C04/step-residual") for v in res.violations):
        res.labels["loose_solver_flag_but_residual_ok"] = True
    # ---- fault injection ---------------------------------------------------------------------------
    if n_calls and case["fault_roll"] == 0:
        k = min(n_calls - 1, int(case["fault_pos"] * n_calls))
        raised = False
        try:
            with Intercept(fault_at=k) as ic2:
                r2 = flowcase.run(case)
        except LibRaised:
            raised = True
        res.counts["fault_runs"] = 1
        if raised:
            res.counts["fault_runs_raised"] = 1
        else:
            injected = [q for q in ic2.calls if q["faulted"]]
            if injected and injected[0]["info"] not in (0, None) or (injected and not injected[0]["relres"] <= 1e-10):
                if flowcase.sound_field(r2.res, r2, res):
                    t2 = step_terms(r2)
                    residual_check(res, r2, t2, c, tag="-after-injected-solver-fault")
            else:
                res.counts["fault_runs_solver_converged_anyway"] = 1
    distinct_dt = len(np.unique(np.round(dts / max(np.max(dts), 1e-300), 12)))
    maxk = max(float(np.max(c * dt * a)) for _, a, _, dt in terms)
    res.nontrivial = bool(len(terms) >= 3 and distinct_dt >= 3 and maxk > 10)
    res.labels["max_k"] = "<=10" if maxk <= 10 else ("10-1e4" if maxk <= 1e4 else ">1e4")
    res.labels["krylov"] = "yes" if n_calls else "no"
    return res
