"""C05 - Forecast scaling law, bounded fitting and parameter round-trip."""

from __future__ import annotations

import functools
import math

import numpy as np
from hypothesis import strategies as st

from vf import forms
from vf.core import Result, lib

ID = "C05"
TITLE = "Forecast scaling law, bounded fitting and parameter round-trip"
LEVEL = "exploration"
BUDGET = {"quick": 6000, "thorough": 800000}
SHRINK = {"quick": False, "thorough": True}
RULE = (
    "Hypothesis draws M in 10^[-1,12], tau in 10^[-3,5], a recovery curve (IdealReservoir and real-gas "
    "SinglePhaseReservoir interpolators simulated once per worker to t/tau = 6, an IdealReservoir interpolator simulated only to t/tau = 2, cubic / quadratic-extrapolating scipy interpolators over a 30-point table of the analytic curve, the analytic Fourier series, a smooth synthetic "
    "monotone curve), a time array of 50..400 samples (uniform or quadratic) and a case kind: 'scaling' (linearity "
    "in M, joint rescaling of t and tau by dyadic and arbitrary factors), 'bounded-fit' (finite / half-infinite / "
    "default Bounds, positive data whose unconstrained optimum may lie outside, default guesses outside on "
    "either side), 'fixed-tau', 'guess' (regularize_initial_guess), 'bad-bounds' and 'round-trip' (window ending in "
    "[0.6 tau, 3 tau]). Non-trivial = bounds finite on at least one side with the default guess outside them, or "
    "fixed-tau, or a round trip, or a scaling case with >= 50 samples. Distinct = hash of the case record."
    " One fixed-tau case in eight fits 4097..20000 noisy samples (every sample counts in the closed-form optimum)."
)
ASSUMPTIONS = [
    "M from 1e-6 to 1e12 and tau from 1e-6 to 3e9 (any production / time unit: 10 years are 3.2e8 s); an earlier version of this check restricted round trips to M^2/tau >= 1e-3 and called the failures below that SciPy's business - wrongly: the fit must not depend on the production unit, and the library now normalises the data (fix 5cafe7e)",
    "lower bounds are finite (physical parameters are positive); upper bounds finite or +inf",
    "round trip tolerance 1e-3 relative; fixed-tau optimum: the fitted M may exceed the closed-form bounded optimum's sum of squares by at most 1e-9 of the data's sum of squares (|dM|/M <~ 3e-5); when the optimum is an active bound, within 1e-3 relative of that bound",
    "a fit that raises (optimiser did not converge on arbitrary data) yields no fitted value and is counted, not reported",
]
LEVEL_TEXT = (
    "Metamorphic relations of the scaling law (exact for dyadic factors), bound containment for generated "
    "bounds/data/guesses, a closed-form optimum for the one-parameter fit and a round trip over generated "
    "windows. Exploration."
)


@functools.lru_cache(maxsize=8)
def curve(name):
    from bluebonnet.flow import FlowProperties, IdealReservoir, SinglePhaseReservoir

    t = np.linspace(0, np.sqrt(6.0), 800) ** 2
    if name == "ideal-short":
        # an interpolator simulated only to t/tau = 2: beyond that it returns its final recovery, so a production
        # window of up to 3 tau reaches past the simulated range (data "generated from the same curve" all the same)
        r = IdealReservoir(40, 500.0, 5000.0, None)
        r.simulate(np.linspace(0, np.sqrt(2.0), 500) ** 2)
        r.recovery_factor()
        return r.recovery_factor_interpolator()
    if name in ("cubic", "previous-extrapolate"):
        # other kinds of scipy interpolator over a coarse table of the analytic curve: the forecaster must use the
        # curve it was given (its interpolation kind, its fill values), whatever class it is
        from scipy.interpolate import interp1d

        ana = curve("analytic")
        tt = np.linspace(0.0, np.sqrt(6.0), 30) ** 2
        if name == "cubic":
            return interp1d(tt, ana(tt), kind="cubic", bounds_error=False, fill_value=(0.0, float(ana(tt[-1:])[0])))
        return interp1d(tt, ana(tt), kind="quadratic", bounds_error=False, fill_value="extrapolate")
    if name == "ideal":
        r = IdealReservoir(40, 500.0, 5000.0, None)
        r.simulate(t)
        r.recovery_factor()
        return r.recovery_factor_interpolator()
    if name == "realgas":
        from vf import tables

        tab = tables.build({"family": "shipped", "name": "gas", "thin": 1})
        r = SinglePhaseReservoir(40, 1000.0, 8000.0, FlowProperties(tab, 8000.0))
        r.simulate(t)
        r.recovery_factor()
        return r.recovery_factor_interpolator()
    if name == "analytic":
        k = np.arange(1, 200)[:, None]
        lam = ((2 * k - 1) * np.pi / 2) ** 2

        def rf(ts):
            ts = np.atleast_1d(np.asarray(ts, float))
            return 1 - np.sum(2 / lam * np.exp(-lam * ts[None, :]), axis=0)

        return rf
    return lambda x: 0.8 * (1 - np.exp(-1.7 * np.sqrt(np.asarray(x, float))))  # synthetic, smooth, monotone


@st.composite
def strategy_(draw):
    kind = draw(st.sampled_from(["scaling", "bounded-fit", "bounded-fit", "fixed-tau", "guess", "bad-bounds", "round-trip", "round-trip"]))
    c = {
        "kind": kind,
        "curve": draw(st.sampled_from(["ideal", "realgas", "analytic", "synthetic", "ideal-short", "cubic", "previous-extrapolate"])),
        "logM": draw(st.one_of(st.floats(-1.0, 12.0), st.floats(-6.0, 12.0))),
        "logtau": draw(st.one_of(st.floats(-3.0, 5.0), st.floats(-6.0, 9.5))),  # years ... seconds: 10 years are 3.2e8 s
        "n": draw(st.integers(50, 400)),
        "end": draw(st.floats(0.6, 3.0)),
        "quadratic": draw(st.booleans()),
    }
    if kind == "scaling":
        c["k_dyadic"] = draw(st.integers(-20, 20))
        c["lam"] = draw(st.floats(1e-3, 1e3))
        c["m_factor_exp"] = draw(st.integers(-10, 10))
        c["M_form"] = draw(forms.scalar_form())
        c["tau_form"] = draw(forms.scalar_form())
    if kind in ("bounded-fit", "fixed-tau", "guess"):
        # bounds as factors of the generating parameters (so that the optimum can be inside or outside)
        c["M_lo"] = draw(st.floats(-3.0, 2.0))
        c["M_hi"] = draw(st.one_of(st.none(), st.floats(0.01, 3.0)))  # decades above lo; None = +inf
        c["tau_lo"] = draw(st.floats(-3.0, 2.0))
        c["tau_hi"] = draw(st.one_of(st.none(), st.floats(0.01, 3.0)))
        c["default_bounds"] = draw(st.integers(0, 5)) == 0
        c["noise"] = draw(st.sampled_from([0.0, 0.0, 0.05, 0.5]))
        c["noise_seed"] = draw(st.integers(0, 2**16))
        c["tau_fixed_factor"] = draw(st.floats(-1.0, 1.0))
        if kind == "fixed-tau" and draw(st.integers(0, 7)) == 0:
            # long histories (hourly data, decades of daily data): every sample counts in the least-squares optimum
            c["n"] = draw(st.sampled_from([4097, 5000, 8191, 9000, 20000]))
            c["noise"] = draw(st.sampled_from([0.05, 0.15, 0.5]))
        # a supplied tau may be a Python int, a numpy scalar or a 0-d array just as well as a float
        c["tau_form"] = draw(forms.scalar_form())
        c["guess"] = [draw(st.floats(-6.0, 14.0)), draw(st.floats(-6.0, 8.0))]
        c["guess_len"] = draw(st.sampled_from([1, 2]))
        # production records are often whole numbers held in integer arrays (days, Mscf)
        c["int_record"] = draw(st.integers(0, 3)) == 0
    if kind == "bad-bounds":
        c["bad"] = draw(st.sampled_from(["M-arity1", "M-arity3", "tau-arity1", "tau-arity3", "M-equal", "M-reversed", "tau-equal", "tau-reversed"]))
        c["v"] = [draw(st.floats(0.0, 1e6)), draw(st.floats(1e-9, 1e6))]
    return c


def strategy(tier):
    return strategy_()


def _times(c, tau):
    end = c["end"] * tau
    n = c["n"]
    return np.linspace(0, np.sqrt(end), n) ** 2 if c["quadratic"] else np.linspace(end / n, end, n)


def _bounds(c, M, tau):
    from bluebonnet.forecast import Bounds

    if c["default_bounds"]:
        return None, (0.0, math.inf), (1e-10, math.inf)
    mlo = M * 10.0 ** c["M_lo"]
    mhi = math.inf if c["M_hi"] is None else mlo * 10.0 ** c["M_hi"]
    tlo = tau * 10.0 ** c["tau_lo"]
    thi = math.inf if c["tau_hi"] is None else tlo * 10.0 ** c["tau_hi"]
    return Bounds(M=(mlo, mhi), tau=(tlo, thi)), (mlo, mhi), (tlo, thi)


def check_case(case) -> Result:
    from bluebonnet.forecast import Bounds, ForecasterOnePhase

    res = Result()
    kind = case["kind"]
    res.labels["kind"] = kind
    res.labels["curve"] = case["curve"]
    cname = case["curve"]
    if kind == "round-trip" and cname in ("cubic", "previous-extrapolate"):
        # the round-trip clause is about the physical recovery curves; an oscillating cubic interpolant of a coarse
        # table gives the least-squares problem other local minima (seen on the unchanged tree) - scaling-law kinds only
        cname = "analytic"
    res.labels["curve"] = cname
    rf = curve(cname)
    M, tau = 10.0 ** case["logM"], 10.0 ** case["logtau"]
    t = _times(case, tau)

    if kind == "bad-bounds":
        a, b = case["v"][0], case["v"][0] + case["v"][1]
        good = (a, b)
        bad = {
            "M-arity1": ((a,), good), "M-arity3": ((a, b, b + 1), good), "tau-arity1": (good, (a,)), "tau-arity3": (good, (a, b, b + 1)),
            "M-equal": ((a, a), good), "M-reversed": ((b, a), good), "tau-equal": (good, (b, b)), "tau-reversed": (good, (b, a)),
        }[case["bad"]]
        try:
            Bounds(M=bad[0], tau=bad[1])
        except Exception:  # noqa: BLE001
            res.nontrivial = True
            return res
        res.bad("C05/malformed-bounds-rejected", f"Bounds(M={bad[0]!r}, tau={bad[1]!r}) accepted")
        return res

    if kind == "scaling":
        f = ForecasterOnePhase(rf)
        y = np.asarray(lib("forecast_cum", f.forecast_cum, t, M, tau), float)
        want = M * np.asarray(rf(t / tau), float)
        if not np.array_equal(y, want):
            k = int(np.argmax(np.abs(y - want)))
            res.check("C05/forecast-is-M-times-rf-of-t-over-tau", float(abs(y[k] - want[k])), 1e-13 * abs(want[k]) + 1e-300, f"forecast_cum(t[{k}]={t[k]!r}, M={M!r}, tau={tau!r}) = {y[k]!r}, M*rf(t/tau) = {want[k]!r};")
        # M and tau as Python ints / numpy scalars / 0-d arrays (whole-number values): the same law
        mf, tf = case.get("M_form", "float"), case.get("tau_form", "float")
        if (mf, tf) != ("float", "float") and "np.float32" not in (mf, tf):
            Mq, tq = forms.representable(M, mf), forms.representable(tau, tf)
            if Mq > 0 and tq > 0:
                yq = np.asarray(lib(f"forecast_cum(M as {mf}, tau as {tf})", f.forecast_cum, t, forms.scalar(Mq, mf), forms.scalar(tq, tf)), float)
                wq = Mq * np.asarray(rf(t / tq), float)
                if yq.shape != wq.shape or not np.allclose(yq, wq, rtol=1e-13, atol=1e-300):
                    res.bad("C05/forecast-is-M-times-rf-of-t-over-tau", f"forecast_cum(t, M={Mq!r} as {mf}, tau={tq!r} as {tf}) differs from M*rf(t/tau) (max diff {float(np.max(np.abs(yq - wq))) if yq.shape == wq.shape else 'shape'})")
                res.labels["scalar_forms"] = "non-float"
        fm = 2.0 ** case["m_factor_exp"]
        y2 = np.asarray(lib("forecast_cum", f.forecast_cum, t, M * fm, tau), float)
        if not np.array_equal(y2, y * fm):
            res.bad("C05/linear-in-M", f"forecast with M*{fm!r} is not {fm!r} times the forecast (max diff {float(np.max(np.abs(y2 - y * fm)))!r})")
        lam2 = 2.0 ** case["k_dyadic"]
        y3 = np.asarray(lib("forecast_cum", f.forecast_cum, t * lam2, M, tau * lam2), float)
        if not np.array_equal(y3, y):
            res.bad("C05/invariant-under-joint-rescaling", f"t and tau both times {lam2!r} (dyadic) changes the forecast by {float(np.max(np.abs(y3 - y)))!r}")
        lam = case["lam"]
        y4 = np.asarray(lib("forecast_cum", f.forecast_cum, t * lam, M, tau * lam), float)
        scale = float(np.max(np.abs(y))) + 1e-300
        res.check("C05/invariant-under-joint-rescaling", float(np.max(np.abs(y4 - y))), 1e-12 * scale, f"t and tau both times {lam!r}: forecast changes;")
        # every way of supplying M and tau obeys the law: fitted (stored) values stand in for omitted arguments only
        Ms, taus = M * 2.0 ** case["m_factor_exp"] * 3.0, tau * 2.0 ** (case["k_dyadic"] % 5) * 1.5
        f.M_, f.tau_ = Ms, taus
        for label, kwargs, m_eff, tau_eff in (
            ("forecast_cum(t)", {}, Ms, taus),
            ("forecast_cum(t, M=M)", {"M": M}, M, taus),
            ("forecast_cum(t, tau=tau)", {"tau": tau}, Ms, tau),
            ("forecast_cum(t, M, tau) with other stored values", {"M": M, "tau": tau}, M, tau),
        ):
            got = np.asarray(lib(label, f.forecast_cum, t, **kwargs), float)
            want_p = m_eff * np.asarray(rf(t / tau_eff), float)
            # equal up to rounding (t / tau may be formed as t * (1 / tau), M * rf in either order)
            if got.shape != want_p.shape or not np.allclose(got, want_p, rtol=1e-13, atol=1e-300):
                k = int(np.argmax(np.abs(got - want_p))) if got.shape == want_p.shape else 0
                res.bad("C05/forecast-is-M-times-rf-of-t-over-tau", f"{label} with stored M_={Ms!r}, tau_={taus!r}, M={M!r}, tau={tau!r}: element {k} is {got[k] if got.shape == want_p.shape else got.shape!r}, M*rf(t/tau) = {want_p[k]!r}")
                break
        res.nontrivial = True
        return res

    if kind == "guess":
        b, (mlo, mhi), (tlo, thi) = _bounds({**case, "default_bounds": False}, M, tau)
        g = [10.0 ** case["guess"][0], 10.0 ** case["guess"][1]][: case["guess_len"]]
        g_in = list(g)
        out = lib("regularize_initial_guess", b.regularize_initial_guess, list(g))
        lims = [(mlo, mhi), (tlo, thi)][: len(g_in)]
        if len(out) != len(g_in):
            res.bad("C05/guess-moved-inside-bounds", f"guess of length {len(g_in)} became length {len(out)}")
            return res
        for v0, v1, (lo, hi) in zip(g_in, out, lims):
            if not (lo <= v1 <= hi):
                res.bad("C05/guess-moved-inside-bounds", f"guess {v0!r} -> {v1!r} not inside [{lo!r}, {hi!r}]")
            if lo <= v0 <= hi and v1 != v0:
                res.bad("C05/guess-moved-inside-bounds", f"in-bounds guess {v0!r} changed to {v1!r} (bounds [{lo!r}, {hi!r}])")
        res.nontrivial = any(not (lo <= v0 <= hi) for v0, (lo, hi) in zip(g_in, lims))
        return res

    y_clean = M * np.asarray(rf(t / tau), float)
    if kind == "round-trip":
        # every production unit: M from 1e-6 (a well's EUR in Bcf or in 1e6 m3 is a small number) to 1e12; SciPy's
        # curve_fit has an ABSOLUTE default gradient tolerance, so a fit that hands it the raw data resolves nothing for
        # M below ~1e-3 - that is the library's to deal with (fixed in /repo, see known_findings.txt), not a domain limit
        res.labels["M_decade"] = "<1e-3" if M < 1e-3 else ("<1" if M < 1 else ">=1")
        f = ForecasterOnePhase(rf)
        lib("fit", f.fit, t, y_clean)
        eM, et = abs(f.M_ / M - 1), abs(f.tau_ / tau - 1)
        res.check("C05/round-trip", max(eM, et), 1e-3, f"fit of noise-free data from M={M!r}, tau={tau!r} ({case['curve']}, window {case['end']!r} tau, {case['n']} samples) gives M_={f.M_!r}, tau_={f.tau_!r};")
        f2 = ForecasterOnePhase(rf)
        lib("fit(tau)", f2.fit, t, y_clean, tau)
        res.check("C05/round-trip", abs(f2.M_ / M - 1), 1e-6, f"fixed-tau fit of noise-free data gives M_={f2.M_!r} for M={M!r};")
        res.nontrivial = True
        return res

    # ---- bounded fits --------------------------------------------------------------------------------
    b, (mlo, mhi), (tlo, thi) = _bounds(case, M, tau)
    rng = np.random.default_rng(case["noise_seed"])
    y = y_clean * np.exp(case["noise"] * rng.standard_normal(len(t)))
    if case.get("int_record") and M >= 1e3 and tau >= 1.0:
        # integer days and integer cumulative volumes (the containment and optimum oracles hold for any data)
        t = np.arange(1, len(t) + 1, dtype=np.int64) * max(1, int(round(case["end"] * tau / len(t))))
        y = np.maximum(1, np.rint(M * np.asarray(rf(t / tau), float) * np.exp(case["noise"] * rng.standard_normal(len(t))))).astype(np.int64)
        res.labels["record_dtype"] = "int64"
    f = ForecasterOnePhase(rf) if b is None else ForecasterOnePhase(rf, b)
    default_guess = [2 * y[-1], 5 * t[-1]]
    outside = not (mlo <= default_guess[0] <= mhi) or (kind == "bounded-fit" and not (tlo <= default_guess[1] <= thi))
    res.labels["default_guess_outside"] = outside
    res.labels["bounds"] = "default" if b is None else ("finite" if math.isfinite(mhi) and math.isfinite(thi) else "half-infinite")
    if kind == "bounded-fit":
        try:
            f.fit(t, y)
        except RuntimeError:
            res.labels["fit_raised"] = True
            return res
        except Exception as e:  # noqa: BLE001
            res.bad("C05/fit-accepts-out-of-bounds-default-guess", f"fit raised {type(e).__name__}: {e} (bounds M=({mlo!r},{mhi!r}) tau=({tlo!r},{thi!r}), default guess {default_guess})")
            return res
        if not (mlo <= f.M_ <= mhi) or not (tlo <= f.tau_ <= thi):
            res.bad("C05/fitted-parameters-inside-bounds", f"M_={f.M_!r}, tau_={f.tau_!r} outside M=({mlo!r},{mhi!r}) tau=({tlo!r},{thi!r})")
        res.nontrivial = bool(b is not None and outside)
        return res
    # fixed tau
    tau_fix = tau * 10.0 ** case["tau_fixed_factor"]
    tform = case.get("tau_form", "float")
    if tform not in ("float", "np.float32"):
        q = forms.representable(tau_fix, tform)
        if q > 0 and 0.5 < q / tau_fix < 2.0:
            tau_fix = q
        else:
            tform = "float"
    else:
        tform = "float"
    res.labels["supplied_tau_form"] = tform
    tau_given = forms.scalar(tau_fix, tform)
    try:
        f.fit(t, y, tau_given)
    except RuntimeError:
        res.labels["fit_raised"] = True
        return res
    except Exception as e:  # noqa: BLE001
        res.bad("C05/fit-accepts-out-of-bounds-default-guess", f"fixed-tau fit raised {type(e).__name__}: {e} (bounds M=({mlo!r},{mhi!r}))")
        return res
    if f.tau_ is not tau_given and float(f.tau_) != tau_fix:
        res.bad("C05/fixed-tau-returned-unchanged", f"tau_={f.tau_!r} after a fit with tau={tau_fix!r}")
    if not (mlo <= f.M_ <= mhi):
        res.bad("C05/fitted-parameters-inside-bounds", f"fixed-tau fit: M_={f.M_!r} outside ({mlo!r},{mhi!r})")
    r = np.asarray(rf(t / tau_fix), float)
    y = np.asarray(y, float)  # the harness's own arithmetic in floating point (integer records overflow in y.y)
    if float(np.dot(r, r)) > 0:
        m_star = float(np.dot(y, r) / np.dot(r, r))
        want = min(max(m_star, mlo), mhi)
        at_bound = not (mlo * (1 + 1e-3) < m_star < mhi * (1 - 1e-3))
        res.labels["fixed_tau_optimum"] = "on a bound" if at_bound else "interior"
        if at_bound:
            # SciPy's trust-region-reflective iterates stay strictly inside and stop ~1e-5 short of an active bound
            res.check("C05/fixed-tau-bounded-least-squares-optimum", abs(f.M_ - want), 1e-3 * abs(want) + 1e-9 * math.sqrt(float(np.dot(y, y)) / float(np.dot(r, r))), f"fixed-tau fit: M_={f.M_!r}, optimum is the bound {want!r} (unconstrained {m_star!r}, bounds ({mlo!r},{mhi!r}));")
        else:
            # optimality in terms of the objective (the optimiser's own stopping rule is relative to the cost)
            excess = float(np.sum((f.M_ * r - y) ** 2) - np.sum((want * r - y) ** 2))
            res.check("C05/fixed-tau-bounded-least-squares-optimum", max(excess, 0.0), 1e-9 * float(np.dot(y, y)), f"fixed-tau fit: M_={f.M_!r}, closed-form optimum {want!r} (bounds ({mlo!r},{mhi!r})): excess sum of squares;")
    res.nontrivial = True
    return res
