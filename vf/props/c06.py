"""C06 - Gas Z-factor is the root of the Dranchuk-Abou-Kassem equation of state."""

from __future__ import annotations

import math
import sys

from hypothesis import strategies as st

from vf import forms, gens, refs
from vf.core import Result, history_independent, lib

ID = "C06"
TITLE = "Gas Z-factor is the root of the Dranchuk-Abou-Kassem equation of state"
LEVEL = "exploration"
BUDGET = {"quick": 8000, "thorough": 2000000}
SHRINK = {"quick": True, "thorough": True}
RULE = (
    "Hypothesis draws (T, p, T_pc, p_pc) either directly on the rectangle 1.05 <= T_r <= 3, 0 < p_r <= 30 "
    "(uniform, log-uniform down to 1e-4, one case in eight log-uniform on 1e-13..1e-4 'towards zero pressure', the corners, extra weight on T_r < 1.4 and p_r > 10) or from gas gravity "
    "0.55..1.2, temperature 80..400 F and pressure 10..14000 psia through the Sutton hydrocarbon polynomials "
    "(the default build_pvt_gas range). Each case evaluates z_factor_DAK at p and at p(1+1e-4) and "
    "z_factor_hallyarbrough at (p_r, T_r) under a line-event cap. Non-trivial = p_r > 0.5 (Z differs from 1 by "
    "more than 1e-3). One case in sixteen is a short build_pvt_gas table (maximum pressure 25..400 psia handed over as float, "
    "Python / numpy int or by keyword; reservoir temperature with a fractional part in half of them): every tabulated Z must "
    "equal z_factor_DAK at that row and be a root of the equation of state. Distinct = hash of the case record."
    " One rectangle case in forty evaluates Z from four threads at once (switch interval 1e-6 s) and requires the sequential values."
)
ASSUMPTIONS = [
    "the Dranchuk-Abou-Kassem equation is the published 11-constant form written in vf/refs.py (C1 = A1 + A2/T_r + ...)",
    "root tolerance |Z - Z_EOS(rho_r(Z))| <= 1e-6; continuity |Z(p(1+1e-4)) - Z(p)| <= 5e-4 p_r max(1, 1/Z-slope bound) + 1e-6",
    "z_factor_hallyarbrough takes reduced pressure and reduced temperature (its formula uses t = 1/T_r)",
    "Hall-Yarbrough is compared (5 %) with the independent root of the published EOS on 1.2 <= T_r <= 3, 0 < p_r <= 24; it must terminate (<= 2e5 traced line events) on the whole rectangle",
]
LEVEL_TEXT = (
    "Residual of the returned Z in the published equation of state, continuity, low-pressure limit and a "
    "differential against Hall-Yarbrough over generated points of the whole validity rectangle. The known "
    "first-coefficient finding is recognised by a mechanism classifier (Z is a root of the EOS with C1 = "
    "A1*A2/T_r + ...), every other non-root is reported. Exploration."
)


@st.composite
def strategy_(draw):
    if draw(st.integers(0, 15)) == 0:
        # the tabulated Z (build_pvt_gas()['z-factor'], the form in which the flow module consumes it): a short table for
        # a generated composition; the maximum pressure as float / int / keyword, temperatures with a fractional part
        comp = draw(gens.gas_composition())
        if draw(st.booleans()):
            comp = dict(comp, T=math.floor(comp["T"]) + draw(st.sampled_from([0.5, 0.21375, 0.9, 0.75])))
        pmax = draw(st.one_of(st.integers(3, 40).map(lambda k: 10.0 * k), st.integers(25, 400).map(float), st.floats(25.0, 400.0)))
        return {"src": "table", "comp": comp, "pmax": pmax, "pmax_form": draw(forms.pmax_form())}
    if draw(st.integers(0, 3)) == 0:
        sg = draw(st.floats(0.55, 1.2))
        T = draw(st.floats(80.0, 400.0))
        p = draw(st.one_of(st.floats(10.0, 14000.0), gens.loguniform(10.0, 14000.0), st.floats(9000.0, 14000.0)))
        wet = draw(st.booleans())
        if wet:
            tpc = 164.3 + 357.7 * sg - 67.7 * sg**2
            ppc = 744 - 125.4 * sg + 5.9 * sg**2
        else:
            tpc = 120.1 + 429 * sg - 62.9 * sg**2
            ppc = 671.1 - 14 * sg - 34.3 * sg**2
        return {"src": "sutton", "T": T, "p": p, "tpc": tpc - 459.67, "ppc": ppc, "T_form": draw(forms.scalar_form()), "p_form": draw(forms.scalar_form())}
    s = draw(gens.gas_state())
    if draw(st.integers(0, 7)) == 0:
        # "tends to 1 as pressure tends to 0": the quantifier is 0 < p_r, so go far below any table pressure
        s = dict(s, p=draw(gens.loguniform(1e-13, 1e-4)) * s["ppc"])
        return {"src": "towards-zero-pressure", "T": s["T"], "p": s["p"], "tpc": s["tpc"], "ppc": s["ppc"], "T_form": draw(forms.scalar_form()), "p_form": draw(forms.scalar_form(allow_int=False))}
    return {"src": "rectangle", "T": s["T"], "p": s["p"], "tpc": s["tpc"], "ppc": s["ppc"], "T_form": draw(forms.scalar_form()), "p_form": draw(forms.scalar_form()), "threads": draw(st.integers(0, 39)) == 0}


def strategy(tier):
    return strategy_()


class _TooManySteps(Exception):
    pass


def call_with_line_cap(fn, cap, *args):
    """Run fn(*args) but raise _TooManySteps after `cap` traced line events inside fn's own frame.

    Deterministic replacement for a wall-clock timeout (a non-terminating Newton loop is detected after a
    fixed number of executed lines, independent of machine speed)."""
    code = fn.__code__
    count = [0]

    def local(frame, event, arg):
        if event == "line":
            count[0] += 1
            if count[0] > cap:
                raise _TooManySteps
        return local

    def tracer(frame, event, arg):
        if event == "call" and frame.f_code is code:
            return local
        return None

    old = sys.gettrace()
    sys.settrace(tracer)
    try:
        return fn(*args), count[0]
    finally:
        sys.settrace(old)


def known_match(case, v):
    """F5: the library solves the EOS whose first coefficient is A1*A2/T_r (instead of A1 + A2/T_r)."""
    if v.oracle != "C06/root":
        return None
    from bluebonnet.fluids import gas as G

    T, p, tpc, ppc = case["T"], case["p"], case["tpc"], case["ppc"]
    tr, pr = (T + 459.67) / (tpc + 459.67), p / ppc
    try:
        z = float(G.z_factor_DAK(T, p, tpc, ppc))
    except Exception:  # noqa: BLE001
        return None
    if math.isfinite(z) and z > 0 and abs(refs.dak_residual(z, tr, pr, variant=True)) <= 1e-8:
        return "dak-first-coefficient"
    return None


def check_table(case, res):
    """Every tabulated Z is the value of z_factor_DAK at that row's pressure and the supplied reservoir temperature,
    and a root of the equation of state there (of either form of the first coefficient: which one is decided by the
    scalar cases, where the known finding is classified)."""
    import numpy as np
    from bluebonnet.fluids import build_pvt_gas
    from bluebonnet.fluids import gas as G

    comp, pmax = case["comp"], case["pmax"]
    nh = G.make_nonhydrocarbon_properties(comp["N2"], comp["H2S"], comp["CO2"])
    tpc, ppc = lib("pseudocritical_point_Sutton", G.pseudocritical_point_Sutton, comp["sg"], nh, comp["dryness"])
    T = comp["T"]
    tr = (T + 459.67) / (tpc + 459.67)
    res.labels["src"] = "table"
    if not (1.05 <= tr <= 3.0 and ppc > 0 and pmax / ppc <= 30.0):
        res.skipped = "Sutton point puts the table outside the correlation's rectangle"
        return res
    gv = {"N2": comp["N2"], "H2S": comp["H2S"], "CO2": comp["CO2"], "Gas Specific Gravity": comp["sg"], "Reservoir Temperature (deg F)": T}
    df = lib("build_pvt_gas", forms.call_with_pmax, build_pvt_gas, gv, comp["dryness"], pmax, case["pmax_form"])
    res.labels["pmax_form"] = case["pmax_form"] + ("" if float(pmax).is_integer() else " (not whole: float)")
    res.labels["T_fractional"] = not float(T).is_integer()
    pcol = np.asarray(df["pressure"], float)
    zcol = np.asarray(df["z-factor"], float)
    want_p = np.arange(10.0, pmax, 10.0)
    if pcol.shape != want_p.shape or not np.allclose(pcol, want_p, rtol=1e-13, atol=0.0):
        res.bad("C06/table-grid", f"pressure column {pcol[:3]}..{pcol[-1:]} ({pcol.size} rows), expected arange(10, {pmax!r}, 10)")
        return res
    res.nontrivial = len(want_p) >= 3
    for q, zt in zip(want_p, zcol):
        if not (math.isfinite(zt) and zt > 0):
            res.bad("C06/finite-positive", f"tabulated Z={zt!r} at p={q!r} ({gv}, pmax={pmax!r})")
            break
        zs = float(lib("z_factor_DAK", G.z_factor_DAK, T, float(q), tpc, ppc))
        ok1 = res.check("C06/table-row-is-the-scalar-value", abs(zt - zs), 1e-12 * zs, f"build_pvt_gas z-factor {zt!r} at p={q!r} vs z_factor_DAK({T!r}, {q!r}, ...)={zs!r} ({gv}, pmax={pmax!r} as {case['pmax_form']});")
        g = min(abs(refs.dak_residual(zt, tr, q / ppc, variant=False)), abs(refs.dak_residual(zt, tr, q / ppc, variant=True)))
        ok2 = res.check("C06/table-row-is-a-root", g, 1e-8, f"tabulated Z={zt!r} at p={q!r}, T={T!r} (T_r={tr!r}) is not a root of the equation of state ({gv}, pmax={pmax!r} as {case['pmax_form']});")
        if not (ok1 and ok2):
            break
    return res


def check_case(case) -> Result:
    from bluebonnet.fluids import gas as G

    res = Result()
    if case["src"] == "table":
        return check_table(case, res)
    T, p, tpc, ppc = case["T"], case["p"], case["tpc"], case["ppc"]
    tr = (T + 459.67) / (tpc + 459.67)
    pr = p / ppc
    if not (1.05 <= tr <= 3.0 and 0 < pr <= 30.0):
        res.skipped = "outside the correlation's rectangle"
        return res
    res.labels["src"] = case["src"]
    res.labels["tr_band"] = "1.05-1.2" if tr < 1.2 else ("1.2-1.5" if tr < 1.5 else ("1.5-2" if tr < 2 else "2-3"))
    res.labels["pr_band"] = "<1e-6" if pr < 1e-6 else "<0.01" if pr < 1e-2 else ("0.01-0.5" if pr < 0.5 else ("0.5-5" if pr < 5 else ("5-16" if pr < 16 else "16-30")))
    res.nontrivial = pr > 0.5

    z = float(lib("z_factor_DAK", G.z_factor_DAK, T, p, tpc, ppc))
    if not (math.isfinite(z) and z > 0):
        res.bad("C06/finite-positive", f"Z={z!r} at T_r={tr!r} p_r={pr!r}")
        return res
    # (i) root of the published equation at the corresponding reduced density
    g_pub = abs(refs.dak_residual(z, tr, pr, variant=False))
    g_var = abs(refs.dak_residual(z, tr, pr, variant=True))
    res.check("C06/root", g_pub, 1e-6, f"|Z - Z_EOS(rho_r)| for Z={z!r} at T_r={tr!r} p_r={pr!r} (residual in the A1*A2/T_r variant: {g_var:.3g});")
    # not a root of either form: say what it looks like (bound / guess)
    if g_pub > 1e-6 and g_var > 1e-8:
        guess_like = abs(z - 1.0) < 1e-9 and pr > 0.05
        bound_like = min(abs(z - 5.0), abs(z - 0.05)) < 1e-6
        if guess_like or bound_like:
            res.bad("C06/not-bound-or-guess", f"Z={z!r} is a search {'bound' if bound_like else 'starting guess'} at T_r={tr!r} p_r={pr!r}")
    # (iii) continuity in pressure
    d = 1e-4
    z2 = float(lib("z_factor_DAK", G.z_factor_DAK, T, p * (1 + d), tpc, ppc))
    res.check("C06/continuous", abs(z2 - z), 5 * d * max(pr, 1.0) + 1e-6, f"Z jumps {z!r} -> {z2!r} for p_r {pr!r} -> {pr * (1 + d)!r} at T_r={tr!r};")
    # the numeric type of the inputs must not matter: float32 scalars (elements of a float32 pressure array) and
    # whole numbers given as Python ints give the root for the value they represent
    import numpy as np

    p32 = np.float32(p)
    z32 = float(lib("z_factor_DAK(float32 pressure)", G.z_factor_DAK, T, p32, tpc, ppc))
    z64 = float(lib("z_factor_DAK", G.z_factor_DAK, T, float(p32), tpc, ppc))
    res.check("C06/input-dtype-irrelevant", abs(z32 - z64), 1e-6, f"Z(np.float32({float(p32)!r}))={z32!r} vs Z({float(p32)!r})={z64!r} at T_r={tr!r};")
    if p >= 20:
        pi_ = int(round(p))
        zi = float(lib("z_factor_DAK(int pressure)", G.z_factor_DAK, T, pi_, tpc, ppc))
        zf = float(lib("z_factor_DAK", G.z_factor_DAK, T, float(pi_), tpc, ppc))
        res.check("C06/input-dtype-irrelevant", abs(zi - zf), 1e-12, f"Z(int {pi_})={zi!r} vs Z(float)={zf!r};")
    # ... and so for every other scalar form (numpy scalars of either kind, 0-d arrays, Python ints) of T and p
    tf, pf = case.get("T_form", "float"), case.get("p_form", "float")
    if (tf, pf) != ("float", "float"):
        Tq, pq = forms.representable(T, tf), forms.representable(p, pf)
        trq, prq = (Tq + 459.67) / (tpc + 459.67), pq / ppc
        if pq > 0 and 1.05 <= trq <= 3.0 and 0 < prq <= 30.0:
            zq = float(lib(f"z_factor_DAK(T as {tf}, p as {pf})", G.z_factor_DAK, forms.scalar(Tq, tf), forms.scalar(pq, pf), tpc, ppc))
            zf = float(lib("z_factor_DAK", G.z_factor_DAK, Tq, pq, tpc, ppc))
            tolq = 1e-5 if "np.float32" in (tf, pf) else 1e-12
            res.check("C06/input-dtype-irrelevant", abs(zq - zf), tolq, f"Z(T={Tq!r} as {tf}, p={pq!r} as {pf})={zq!r} vs the same values as Python floats {zf!r};")
            res.labels["scalar_forms"] = "non-float"
    # Z(T, p) is a function of its arguments only: evaluating neighbouring isotherms / other pseudocritical points in
    # between (a fine temperature sweep, a finite-difference dZ/dT, another gas) must not change it, and the value on
    # the neighbouring isotherm must be the root for ITS temperature
    dT = (T + 459.67) * 2e-6
    lib("z_factor_DAK", history_independent, res, "C06/independent-of-call-history", G.z_factor_DAK, (T, p, tpc, ppc), [(T + dT, p, tpc, ppc), (T - dT, 0.5 * p, tpc, ppc), (T, p, tpc + 1e-4, ppc)], "z_factor_DAK", 1e-10)
    z_first = float(lib("z_factor_DAK", G.z_factor_DAK, T, p, tpc, ppc))
    z_near = float(lib("z_factor_DAK", G.z_factor_DAK, T + dT, p, tpc, ppc))
    tr_near = (T + dT + 459.67) / (tpc + 459.67)
    if 1.05 <= tr_near <= 3.0 and math.isfinite(z_near) and z_near > 0:
        g_near = min(abs(refs.dak_residual(z_near, tr_near, pr, variant=False)), abs(refs.dak_residual(z_near, tr_near, pr, variant=True)))
        res.check("C06/root-on-neighbouring-isotherm", g_near, 1e-8, f"Z={z_near!r} at T_r={tr_near!r} (evaluated right after T_r={tr!r}), p_r={pr!r}: not a root of the equation of state at its own temperature (Z on the first isotherm {z_first!r});")
    # Z(T, p) evaluated from several threads at once (a thread pool building tables for many wells) is the same
    # function: every concurrent result must equal the sequential one.  Sound on any correct implementation whatever
    # the interleaving; a race on shared module state shows with high probability at this switch interval.
    if case.get("threads"):
        import concurrent.futures

        pts = [(T + k * 7.0, p * f, tpc, ppc) for k in range(4) for f in (1.0, 0.5, 0.25)]
        pts = [q for q in pts if 1.05 <= (q[0] + 459.67) / (tpc + 459.67) <= 3.0 and q[1] > 0]
        seq = [float(G.z_factor_DAK(*q)) for q in pts]
        old = sys.getswitchinterval()
        sys.setswitchinterval(1e-6)
        try:
            with concurrent.futures.ThreadPoolExecutor(4) as ex:
                par = list(ex.map(lambda q: [float(G.z_factor_DAK(*q)) for _ in range(6)], pts * 2))
        finally:
            sys.setswitchinterval(old)
        for q, zs, want in zip(pts * 2, par, seq * 2):
            if any(abs(z_ - want) > 1e-12 * want for z_ in zs):
                res.bad("C06/same-value-from-concurrent-threads", f"z_factor_DAK{q!r} = {want!r} sequentially but {zs!r} when evaluated from four threads at once")
                break
        res.labels["threads"] = True
    # (iv) low-pressure limit
    if pr <= 1e-2:
        res.check("C06/low-pressure-limit", abs(z - 1.0), 0.6 * pr + 1e-12, f"|Z-1| with Z={z!r} at p_r={pr!r} T_r={tr!r};")
    # (v) Hall-Yarbrough
    try:
        zhy, _n = call_with_line_cap(G.z_factor_hallyarbrough, 200_000, pr, tr)
        zhy = float(zhy)
    except _TooManySteps:
        res.bad("C06/hall-yarbrough-terminates", f"z_factor_hallyarbrough({pr!r}, {tr!r}) did not finish within 200000 line events")
        return res
    except Exception as e:  # noqa: BLE001
        res.bad("C06/hall-yarbrough-terminates", f"z_factor_hallyarbrough({pr!r}, {tr!r}) raised {type(e).__name__}: {e}")
        return res
    # common range: Hall-Yarbrough's published limits 1.2 <= T_r <= 3, p_r <= 24 inside the DAK rectangle; both routines
    # tend to the ideal gas as p -> 0, so there is no lower pressure limit (an earlier version stopped at p_r = 0.1 and
    # so never saw that the routine returned its starting guess below p_r ~ 1e-3: Z = 6.2 at T_r = 1.2, p_r = 1e-4)
    common = 1.2 <= tr <= 3.0 and 0 < pr <= 24.0
    res.labels["hy_common_range"] = common
    if common:
        roots = refs.dak_roots(tr, pr)
        if len(roots) != 1:
            res.labels["published_eos_roots"] = len(roots)
        if roots:
            zref = min(roots, key=lambda r: abs(r - zhy))
            err = abs(zhy / zref - 1.0) if math.isfinite(zhy) else float("inf")
            res.check("C06/hall-yarbrough-agrees", err, 0.05, f"Z_HY={zhy!r} vs published DAK root {zref!r} at T_r={tr!r} p_r={pr!r};")
    return res
