"""C01 - Simulated pseudopressure obeys the maximum principle and the frac-face value."""

from __future__ import annotations

import math

import numpy as np

from vf import flowcase, tables
from vf.core import Result

ID = "C01"
TITLE = "Simulated pseudopressure obeys the maximum principle and the frac-face value"
LEVEL = "exploration"
BUDGET = {"quick": 1600, "thorough": 400000}
SHRINK = {"quick": False, "thorough": True}
TIME_LIMIT = {"quick": 150, "thorough": 3300}
RULE = (
    "Hypothesis draws a PVT table (shipped CSVs thinned/cropped; synthetic power-law, constant-diffusivity, kinked "
    "and real-gas families on uniform/geometric/jittered pressure grids of 8..120 rows (400 in thorough); small "
    "library-built tables), a pressure pair (p_i on/off a node; p_f/p_i uniform in (0.01,0.99) or 1-10^-u, u in "
    "[1,5]), nx 3..400, a time grid (uniform, quadratic, geometric, random log-uniform steps 1e-8.."
    "1e4, 1..5 very large steps 1e3..1e12, grids with repeated times, times scattered uniformly over the transient - consecutive steps differing by factors of 10-100 -, non-zero start) and a schedule (none, "
    "constant, stepwise non-increasing, arbitrary within [p_min, p_i]); 2 in 8 cases are an IdealReservoir, 1 in 8 a "
    "TwoPhaseReservoir on the shipped oil+water tables through FlowPropertiesTwoPhase.from_table (admissible "
    "Brooks-Corey sets; tables without positive mobility and storage derivative are discarded). "
    "Non-trivial = at least 2 steps, positive drawdown and one of: p_f/p_i > 0.9, a step with mesh ratio > 100, a "
    "schedule with >= 2 distinct values, relaxation bound < 1e-3 of the drawdown. Distinct = hash of the case record."
    " One case in nine reaches the simulation through a copy.copy / deepcopy / pickle round trip of the fluid or a deepcopy of the reservoir; one single-phase case in six uses a subclass that overrides the documented alpha_scaled hook (table diffusivity times exp(-gamma drawdown)) and inherits simulate."
)
ASSUMPTIONS = [
    "rounding-level tolerance on field values: 1e-9 |m_i| + 1e-6 (m_i - min m_f)",
    "monotonicity in time is asserted in the conditional form that is a theorem of the documented scheme: at the first step at which a node j>=1 rises, node 0 must have risen on that step (DESIGN.md Appendix A.3); on uniform/quadratic/geometric grids this covers every step after the first",
    "relaxation is asserted as the supersolution bound of Appendix A.4 built from the lowest eigenpair of the harness's own constant-coefficient operator and the minimum scaled diffusivity over [m_f, m_i]; for a time-varying schedule the same bound is applied from the level at which the schedule reaches its final value (from there on the run is a constant-drawdown run started inside [min m_f, m_i])",
]
LEVEL_TEXT = (
    "The literal time-monotonicity sentence is asserted; its violations on the unchanged tree (node 0 rises when a step grows) are a known finding recognised by that mechanism. "
    "Each oracle (bounds, spatial monotonicity, conditional time monotonicity, relaxation bound) is a theorem "
    "for the documented scheme with any positive diffusivity table, so it cannot alarm on a correct "
    "implementation; the search covers tables, pressure pairs close to 1, grids with huge mesh ratios and "
    "schedules. Exploration: shows the invariants on everything generated, does not prove them."
)


CLASSES = ("single", "single", "single", "single", "single", "ideal", "ideal", "twophase")


def strategy(tier):
    if tier == "quick":
        return flowcase.sim_case(nx_max=400, max_steps=160, table_nmax=120, classes=CLASSES, subclasses=True)
    return flowcase.sim_case(nx_max=400, max_steps=1500, table_nmax=400, classes=CLASSES, subclasses=True)


def a_min_scaled(r: flowcase.Run):
    """Minimum of alpha(m)/alpha(m_i) over [min m_f, m_i] (piecewise linear table -> nodes and end points)."""
    if r.fluid is None:
        return 1.0
    ms = np.asarray(r.fluid.pvt_props["m-scaled"], float)
    lo, hi = float(np.min(r.m_f)), r.m_i
    pts = np.concatenate([[lo, hi], ms[(ms > lo) & (ms < hi)]])
    gamma = r.case.get("subclass_gamma")
    if gamma:
        # a subclass multiplies the table's diffusivity by exp(-gamma * drawdown) >= exp(-gamma): a lower bound of the
        # product is the table's minimum (the library's own hook, called on the base class) times exp(-gamma)
        from bluebonnet.flow import SinglePhaseReservoir

        return float(np.min(np.asarray(SinglePhaseReservoir.alpha_scaled(r.res, pts), float))) * float(np.exp(-gamma))
    return float(np.min(r.alpha_scaled(pts)))


def final_level(r: flowcase.Run):
    """(k0, m_last): the frac-face value used by the last step and the first level from which every remaining step
    uses it (step i -> i+1 takes the schedule's entry i, so the last entry of a schedule is never applied)."""
    mf = np.asarray(r.m_f, float)
    if len(mf) < 2:
        return 0, float(mf[0])
    used = mf[:-1]
    m_last = float(used[-1])
    differs = np.flatnonzero(used != m_last)
    k0 = int(differs[-1]) + 1 if differs.size else 0
    return k0, m_last


def relaxation_bound(r: flowcase.Run, tail=False):
    """Supersolution bound on max_j |m[N,j] - m_f| under constant drawdown (Appendix A.4).

    tail=True: the same bound for a schedule that stays at its final value from level k0 on - from there the run is a
    constant-drawdown run started from a profile inside [min m_f, m_i], so |m - m_last| <= (D / phi_min) phi
    prod_{n >= k0} 1/(1 + lambda a_min dt_n) with D = m_i - min m_f (a-priori, independent of the stored field)."""
    n = r.case["nx"]
    theta = math.pi / (2 * n + 1)
    lam = (2 - 2 * math.cos(theta)) * r.inv_h2
    amin = a_min_scaled(r)
    dts = np.diff(r.time)
    if tail:
        k0, _ = final_level(r)
        dts = dts[k0:]
        d = r.m_i - float(np.min(r.m_f))
    else:
        d = r.m_i - float(r.m_f[0])
    log_decay = -float(np.sum(np.log1p(lam * amin * dts)))
    phi_min, phi_max = math.sin(theta), math.sin(n * theta)
    if log_decay < -700:
        return 0.0
    return d / phi_min * phi_max * math.exp(log_decay)


def known_match(case, v):
    """Known finding: rises of nodes >= 1 that follow a rise of node 0 (mechanism decided where the violation is raised)."""
    return "node0-rises-when-step-grows" if v.oracle == "C01/monotone-in-time-literal" else None


def check_case(case) -> Result:
    res = Result()
    try:
        r = flowcase.run(case)
    except flowcase.Inadmissible as e:
        res.skipped = str(e)
        return res
    res.labels.update(flowcase.labels(case, r))
    if not flowcase.sound_field(r.res, r, res):
        return res
    m, t = r.m, r.time
    nt, nx = m.shape
    tol = r.tol()
    d = r.d
    # ---- 1. bounds ---------------------------------------------------------------------------------
    lower = np.empty(nt)
    lower[0] = r.m_f[0]
    if nt > 1:
        lower[1:] = np.minimum.accumulate(r.m_f[:-1])
    over = float(np.max(m - r.m_i))
    under = float(np.max(lower[:, None] - m))
    n_o, j_o = np.unravel_index(int(np.argmax(m - r.m_i)), m.shape)
    n_u, j_u = np.unravel_index(int(np.argmax(lower[:, None] - m)), m.shape)
    res.check("C01/upper-bound", max(over, 0.0), tol, f"m[{n_o},{j_o}]={m[n_o, j_o]!r} above m_i={r.m_i!r} (p_f={r.p_f!r}, p_i={r.p_i!r}, nx={nx}, drawdown d={d!r});")
    res.check("C01/lower-bound", max(under, 0.0), tol, f"m[{n_u},{j_u}]={m[n_u, j_u]!r} below the lowest frac-face value applied so far {lower[n_u]!r} (p_f={r.p_f!r}, p_i={r.p_i!r}, nx={nx}, d={d!r});")
    const = r.constant_drawdown
    big_ratio = bool(nt > 1 and np.max(np.diff(t)) * r.inv_h2 > 100)
    rb = None
    if const and nt > 1:
        # ---- 2. non-decreasing away from the fracture ----------------------------------------------
        dx = np.diff(m, axis=1)
        worst = float(np.max(-dx)) if dx.size else 0.0
        n_s, j_s = np.unravel_index(int(np.argmax(-dx)), dx.shape) if dx.size else (0, 0)
        res.check("C01/monotone-in-space", max(worst, 0.0), tol, f"profile falls away from the fracture at level {n_s}, nodes {j_s}->{j_s + 1}: {m[n_s, j_s]!r} -> {m[n_s, j_s + 1]!r} (d={d!r});")
        # ---- 3. non-increasing in time beyond the node next to the fracture (conditional form) --------
        dtm = np.diff(m, axis=0)  # (nt-1, nx)
        rises = dtm[:, 1:] > tol
        covered = 0
        for n in range(dtm.shape[0]):
            node0_rose = dtm[n, 0] > 0
            if np.any(rises[n]):
                if not node0_rose:
                    j = int(np.argmax(dtm[n, 1:])) + 1
                    res.bad(
                        "C01/monotone-in-time",
                        f"node {j} rises by {dtm[n, j]!r} (> {tol!r}) on step {n}->{n + 1} (dt={t[n + 1] - t[n]!r}) although node 0 did not rise and all earlier steps were monotone; d={d!r}, nx={nx}",
                    )
                break  # after the first rise the theorem's premise is gone
            if not node0_rose:
                covered += 1
        res.counts["steps_checked_monotone_in_time"] = covered
        # ---- 3'. the literal sentence: no node beyond the fracture node rises at all ------------------------
        # Not a theorem of the documented scheme (Appendix A.3): node 0 is reset to m_f before every step, so it
        # rises when the step grows and pushes its neighbours up.  The unchanged tree therefore violates the
        # sentence on grids whose steps jump while the profile is still moving (known finding
        # node0-rises-when-step-grows).  A rise is attributed to that mechanism only if node 0 has risen by at least
        # as much on this or an earlier step of the run; any other rise is a violation of its own.
        if not any(v.oracle == "C01/monotone-in-time" for v in res.violations) and dtm.shape[1] > 1:
            cum0 = np.maximum.accumulate(np.maximum(dtm[:, 0], 0.0))
            rise = np.max(dtm[:, 1:], axis=1)
            lit = np.where(rise > tol)[0]
            if lit.size:
                unexplained = lit[rise[lit] > cum0[lit] + tol]
                if unexplained.size:
                    n = int(unexplained[0])
                    j = int(np.argmax(dtm[n, 1:])) + 1
                    res.bad("C01/monotone-in-time", f"node {j} rises by {dtm[n, j]!r} on step {n}->{n + 1} (dt={t[n + 1] - t[n]!r}), more than node 0 has risen on any step so far ({cum0[n]!r}); d={d!r}, nx={nx}")
                else:
                    n = int(lit[int(np.argmax(rise[lit]))])
                    j = int(np.argmax(dtm[n, 1:])) + 1
                    prev = t[n] - t[n - 1] if n > 0 else float("nan")
                    res.bad("C01/monotone-in-time-literal", f"node {j} rises by {dtm[n, j]!r} ({dtm[n, j] / d:.3g} of the drawdown) on step {n}->{n + 1} (dt={t[n + 1] - t[n]!r}, previous dt={prev!r}); node 0 had risen by up to {cum0[n]!r} by then (it is reset to the frac-face value before every step and rises when the step grows); nx={nx}, {lit.size} of {dtm.shape[0]} steps affected")
                res.labels["literal_time_monotone"] = "violated"
        res.counts["steps_total_constant_drawdown"] = dtm.shape[0]
        # ---- 4. relaxes to the frac-face value whatever the step size ---------------------------------
        rb = relaxation_bound(r)
        gap = float(np.max(np.abs(m[-1] - r.m_f[0])))
        res.check("C01/relaxes-to-frac-face-value", gap, rb + tol, f"after {nt - 1} steps to t={t[-1] - t[0]!r} the field is {gap!r} away from m_f (supersolution bound {rb!r}, d={d!r}, p_f/p_i={r.p_f / r.p_i!r}, nx={nx});")
        res.labels["relaxed"] = bool(rb < 1e-3 * d)
    if not const and nt > 2:
        # ---- 4'. a schedule that stays at its final value relaxes to that value (same theorem from level k0 on) ----
        k0, m_last = final_level(r)
        rb_t = relaxation_bound(r, tail=True)
        gap = float(np.max(np.abs(m[-1] - m_last)))
        res.check("C01/relaxes-to-frac-face-value", gap, rb_t + tol, f"schedule constant from level {k0} of {nt - 1}: after the remaining steps (t={t[-1] - t[k0]!r}) the field is {gap!r} away from the final frac-face value {m_last!r} (supersolution bound {rb_t!r}, d={d!r}, nx={nx});")
        res.labels["schedule_tail_relaxed"] = bool(rb_t < 1e-3 * d)
    distinct_levels = 1 if r.schedule is None else len(np.unique(r.schedule))
    res.nontrivial = bool(nt >= 3 and d > 0 and (r.p_f / r.p_i > 0.9 or big_ratio or distinct_levels >= 2 or (rb is not None and rb < 1e-3 * d)))
    res.labels["mesh_ratio_gt_100"] = big_ratio
    return res
