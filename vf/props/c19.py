"""C19 - Fluid facade and PVT-table builder reproduce the underlying correlations."""

from __future__ import annotations

import math

import numpy as np
from hypothesis import strategies as st

from vf import forms, gens
from vf.core import Result, history_independent, lib

ID = "C19"
TITLE = "Fluid facade and PVT-table builder reproduce the underlying correlations"
LEVEL = "exploration"
BUDGET = {"quick": 3200, "thorough": 400000}
SHRINK = {"quick": True, "thorough": True}
RULE = (
    "Three case kinds. 'fluid': a Fluid with generated temperature, API, gas gravity, GOR, salinity (all non-zero and "
    "pairwise different so that swapped or dropped arguments change the answer), a pseudocritical point and a "
    "pressure array (1..8 values around the bubble point); every method is compared with the stand-alone "
    "correlation; in half of the cases the object's fields are then reassigned and every method is compared again.  'table': build_pvt_gas for a generated composition (N2/H2S/CO2 0..0.15, gravity 0.55..1.2, "
    "80..400 F, both dryness settings) and maximum pressure 10.5 (a one-row table) ..3000 psia in quick, ..14000 in thorough (multiples of "
    "10 and not); every row is recomputed with the stand-alone correlations. 'sutton': reductions of the "
    "pseudocritical point (no contaminants, zero-fraction extra component, unknown dryness). Non-trivial = a "
    "fluid case with >= 2 pressures, a table with >= 3 rows, or any sutton case. The table's maximum pressure is handed over "
    "as float, Python / numpy int (whole numbers) or by keyword, and one table in four has a reservoir temperature with a "
    "fractional part; oil parameters also come as numpy float64 scalars. Distinct = hash of the case record."
    " One table in sixty runs to 17000..27000 psi (beyond 30 pseudocritical pressures; the stand-alone correlations accept such pressures)."
)
ASSUMPTIONS = [
    "tolerance 1e-13 relative for delegation (same arithmetic), 1e-12 for table rows and the cumulative trapezoid",
    "hydrocarbon-only Sutton polynomials as published (dry: 120.1+429g-62.9g^2 R, 671.1-14g-34.3g^2 psia; wet: 164.3+357.7g-67.7g^2 R, 744-125.4g+5.9g^2 psia)",
    "compositions are restricted to states whose library Sutton point gives 1.05 <= T_r <= 3 and p_r <= 30 (the Z-factor's range), others are discarded and counted",
]
LEVEL_TEXT = (
    "Differential testing of the facade and of every table row against the stand-alone correlations over "
    "generated parameter sets chosen so that argument mix-ups are visible. Exploration."
)


@st.composite
def fluid_case(draw):
    oil = draw(gens.oil_params())
    sal = draw(st.one_of(st.floats(0.0, 25.0), st.sampled_from([0.0, 0, 25.0, 25, 3])))
    n = draw(st.integers(1, 8))
    return {
        "kind": "fluid",
        "oil": oil,
        "salinity": sal,
        "sw": draw(st.floats(0.0, 0.6)),
        "tpc": draw(st.floats(-120.0, 0.0)),
        "ppc": draw(st.floats(550.0, 800.0)),
        "fracs": [draw(st.floats(0.0, 1.0)) for _ in range(n)],
        "as_list": draw(st.booleans()),
        # the dataclass is mutable: after the first evaluation its fields are reassigned to these values
        "oil2": draw(st.one_of(st.none(), gens.oil_params())),
        "salinity2": draw(st.one_of(st.floats(0.0, 25.0), st.sampled_from([0.0, 0, 25]))),
        # "all Fluid parameter sets": also the nearly dead oils / dry-gas objects whose Standing bubble point is
        # below atmospheric or negative (Fluid(400, 35, 0.65, 0) is the object the repository's own tests build)
        # scalar pressures are handed to the methods as Python / numpy scalars of either kind or 0-d arrays
        "p_form": draw(forms.scalar_form()),
        "low_gor": draw(st.one_of(st.none(), st.none(), st.none(), st.none(), st.floats(0.0, 15.0), st.sampled_from([0, 1, 4, 0.0]))),
    }


@st.composite
def table_case(draw, tier):
    comp = draw(gens.gas_composition())
    hi = 3000.0 if tier == "quick" else 14000.0
    pmax = draw(st.one_of(st.integers(3, int(hi // 10)).map(lambda k: 10.0 * k), st.floats(25.0, hi), st.integers(25, int(hi)).map(float), st.sampled_from([10.5, 15.0, 20.0, 20.000001, 30.0, 1000.0])))
    if draw(st.integers(0, 59)) == 0:
        # tables that run past 30 pseudocritical pressures (ultra-deep wells): each row still equals the stand-alone
        # correlations evaluated at that row's pressure, which accept such pressures
        pmax = draw(st.floats(17000.0, 27000.0))
    if draw(st.integers(0, 3)) == 0:
        # a reservoir temperature with a fractional part however the composition was drawn (unit conversions give such)
        comp = dict(comp, T=math.floor(comp["T"]) + draw(st.sampled_from([0.5, 0.21375, 0.9, 0.75])))
    return {"kind": "table", "comp": comp, "pmax": pmax, "pmax_form": draw(forms.pmax_form()), "container": draw(st.sampled_from(["dict", "series", "series-other-order", "dataframe-row", "dict-other-order", "dict-int-values"]))}


@st.composite
def sutton_case(draw):
    comp = draw(gens.gas_composition())
    return {
        "kind": "sutton",
        "comp": comp,
        "comp_other": draw(gens.gas_composition()),
        "bad_dryness": draw(st.sampled_from(["dry", "wet", "Dry Gas", "", "gas", "oil", "wet gas "])),
        "extra": {"name": "Helium", "mw": draw(st.floats(2.0, 60.0)), "tc": draw(st.floats(9.0, 900.0)), "pc": draw(st.floats(30.0, 1500.0))},
    }


def strategy(tier):
    return st.one_of(fluid_case(), fluid_case(), table_case(tier), sutton_case())


def _close(res, oracle, got, want, rel, what):
    got = np.asarray(got, float)
    want = np.asarray(want, float)
    if got.shape != want.shape:
        res.bad(oracle, f"{what}: shape {got.shape} vs {want.shape}")
        return
    if got.size == 0:
        return
    if not np.all(np.isfinite(got) == np.isfinite(want)):
        res.bad(oracle, f"{what}: finiteness differs {got} vs {want}")
        return
    m = np.isfinite(want)
    err = np.abs(got[m] - want[m]) / np.maximum(np.abs(want[m]), 1e-300)
    if err.size:
        k = int(np.argmax(err))
        res.check(oracle, float(err[k]), rel, f"{what}: got {got[m][k]!r} want {want[m][k]!r};")


def _sutton(comp):
    from bluebonnet.fluids import gas as G

    nh = G.make_nonhydrocarbon_properties(comp["N2"], comp["H2S"], comp["CO2"])
    return G.pseudocritical_point_Sutton(comp["sg"], nh, comp["dryness"])


def check_case(case) -> Result:
    from bluebonnet.fluids import Fluid, build_pvt_gas
    from bluebonnet.fluids import gas as G
    from bluebonnet.fluids import oil as O
    from bluebonnet.fluids import water as W

    res = Result()
    kind = case["kind"]
    res.labels["kind"] = kind
    if kind == "fluid":
        o = case["oil"]
        T, api, sg, gor, sal = (*gens.oil_tuple(o), case["salinity"])
        tpc, ppc = case["tpc"], case["ppc"]
        if case.get("low_gor") is not None:
            gor = case["low_gor"]
            res.labels["low_gor"] = True
        fl = Fluid(T, api, sg, gor, salinity=sal, water_saturation_initial=case["sw"])
        pb = float(lib("pressure_bubblepoint_Standing", O.pressure_bubblepoint_Standing, T, api, sg, gor))
        got_pb = float(lib("Fluid.pressure_bubblepoint", fl.pressure_bubblepoint))
        _close(res, "C19/fluid-delegation", got_pb, pb, 1e-13, f"Fluid({T!r},{api!r},{sg!r},{gor!r}).pressure_bubblepoint")
        if case.get("low_gor") is not None:
            # the water and gas methods do not involve the GOR: they must work and delegate for such an object too
            ps = np.array([15.0 + f * (min(30.0 * ppc, 15000.0) - 15.0) for f in case["fracs"]])
            for name, call, want in [
                ("water_FVF", lambda: fl.water_FVF(ps), [W.b_water_McCain(T, q) for q in ps]),
                ("water_viscosity", lambda: fl.water_viscosity(ps), [W.viscosity_water_McCain(T, q, sal) for q in ps]),
                ("gas_FVF", lambda: fl.gas_FVF(ps, tpc, ppc), [G.b_factor_DAK(T, q, tpc, ppc) for q in ps]),
                ("gas_viscosity", lambda: fl.gas_viscosity(ps, tpc, ppc), [G.viscosity_Sutton(T, q, tpc, ppc, sg) for q in ps]),
            ]:
                if name.startswith("gas") and not (1.05 <= (T + 459.67) / (tpc + 459.67) <= 3.0):
                    continue
                _close(res, "C19/fluid-delegation", lib(f"Fluid.{name}", call), want, 1e-13, f"Fluid({T!r},{api!r},{sg!r},{gor!r},salinity={sal!r}).{name} on {list(ps)}")
            res.nontrivial = True
            return res
        if not (math.isfinite(pb) and pb > 50):
            res.skipped = "bubble point <= 50"
            return res
        hi = min(2.5 * pb, 30.0 * ppc, 20000.0)
        # pressures in the generated (arbitrary) order, with a repeated value when there are at least three
        ps = np.array([15.0 + f * (hi - 15.0) for f in case["fracs"]])
        if len(ps) >= 3:
            ps[-1] = ps[0]
        arr = list(ps) if case["as_list"] else ps
        arr_np = ps  # methods that index/mask need an ndarray
        pairs = [
            ("water_FVF", lambda: fl.water_FVF(arr), [W.b_water_McCain(T, q) for q in ps]),
            ("water_viscosity", lambda: fl.water_viscosity(arr_np), [W.viscosity_water_McCain(T, q, sal) for q in ps]),
            ("gas_FVF", lambda: fl.gas_FVF(arr, tpc, ppc), [G.b_factor_DAK(T, q, tpc, ppc) for q in ps]),
            ("gas_viscosity", lambda: fl.gas_viscosity(arr, tpc, ppc), [G.viscosity_Sutton(T, q, tpc, ppc, sg) for q in ps]),
            ("oil_FVF", lambda: fl.oil_FVF(arr_np), [O.b_o_Standing(T, q, api, sg, gor) for q in ps]),
            ("oil_viscosity", lambda: fl.oil_viscosity(arr), [O.viscosity_beggs_robinson(T, q, api, sg, gor) for q in ps]),
            ("oil_FVF(scalar)", lambda: [fl.oil_FVF(float(q)) for q in ps], [O.b_o_Standing(T, q, api, sg, gor) for q in ps]),
            ("oil_viscosity(scalar)", lambda: [fl.oil_viscosity(float(q)) for q in ps], [O.viscosity_beggs_robinson(T, q, api, sg, gor) for q in ps]),
            ("water_viscosity(scalar)", lambda: [fl.water_viscosity(float(q)) for q in ps], [W.viscosity_water_McCain(T, q, sal) for q in ps]),
        ]
        form = case.get("p_form", "float")
        if form not in ("float", "np.float32"):
            qs = [forms.representable(q, form) for q in ps]
            qs = [q for q in qs if q >= 15.0]
            pairs += [
                (f"oil_FVF(scalar as {form})", lambda: [float(fl.oil_FVF(forms.scalar(q, form))) for q in qs], [O.b_o_Standing(T, q, api, sg, gor) for q in qs]),
                (f"oil_viscosity(scalar as {form})", lambda: [float(fl.oil_viscosity(forms.scalar(q, form))) for q in qs], [O.viscosity_beggs_robinson(T, q, api, sg, gor) for q in qs]),
                (f"water_viscosity(scalar as {form})", lambda: [float(fl.water_viscosity(forms.scalar(q, form))) for q in qs], [W.viscosity_water_McCain(T, q, sal) for q in qs]),
            ]
            res.labels["scalar_pressure_form"] = form
        # another Fluid object evaluated in between must not change what this one returns
        fl_other = Fluid(T + 7, api + 3, min(1.3, sg * 1.1), gor * 1.3, salinity=sal * 0.5 + 0.1)

        def _both(which):
            f_ = fl if which == "this" else fl_other
            return np.concatenate([np.asarray(f_.oil_FVF(arr_np), float), np.asarray(f_.oil_viscosity(arr_np), float), np.asarray(f_.water_viscosity(arr_np), float), [float(f_.pressure_bubblepoint())]])

        lib("Fluid methods", history_independent, res, "C19/independent-of-other-objects", _both, ("this",), [("other",)], "Fluid.oil_FVF / oil_viscosity / water_viscosity / pressure_bubblepoint", 1e-10)
        for name, call, want in pairs:
            got = lib(f"Fluid.{name}", call)
            _close(res, "C19/fluid-delegation", got, want, 1e-13, f"Fluid({T!r},{api!r},{sg!r},{gor!r},salinity={sal!r}).{name} on {list(ps)} (tpc={tpc!r}, ppc={ppc!r})")
        if case.get("oil2") and not res.violations:
            # reassign the object's fields (after every method has been evaluated once) and compare again
            o2 = case["oil2"]
            T2, api2, sg2, gor2, sal2 = (*gens.oil_tuple(o2), case["salinity2"])
            fl.temperature, fl.api_gravity, fl.gas_specific_gravity, fl.solution_gor_initial, fl.salinity = T2, api2, sg2, gor2, sal2
            pb2 = float(lib("pressure_bubblepoint_Standing", O.pressure_bubblepoint_Standing, T2, api2, sg2, gor2))
            _close(res, "C19/fluid-follows-reassigned-fields", float(lib("Fluid.pressure_bubblepoint", fl.pressure_bubblepoint)), pb2, 1e-13, "pressure_bubblepoint after the fields were reassigned")
            if pb2 > 50 and np.isfinite(pb2):
                again = [
                    ("water_FVF", lambda: fl.water_FVF(arr), [W.b_water_McCain(T2, q) for q in ps]),
                    ("water_viscosity", lambda: fl.water_viscosity(arr_np), [W.viscosity_water_McCain(T2, q, sal2) for q in ps]),
                    ("gas_FVF", lambda: fl.gas_FVF(arr, tpc, ppc), [G.b_factor_DAK(T2, q, tpc, ppc) for q in ps]),
                    ("gas_viscosity", lambda: fl.gas_viscosity(arr, tpc, ppc), [G.viscosity_Sutton(T2, q, tpc, ppc, sg2) for q in ps]),
                    ("oil_FVF", lambda: fl.oil_FVF(arr_np), [O.b_o_Standing(T2, q, api2, sg2, gor2) for q in ps]),
                    ("oil_viscosity", lambda: fl.oil_viscosity(arr), [O.viscosity_beggs_robinson(T2, q, api2, sg2, gor2) for q in ps]),
                ]
                tr2 = (T2 + 459.67) / (tpc + 459.67)
                for name, call, want in again:
                    if name.startswith("gas") and not (1.05 <= tr2 <= 3.0):
                        continue
                    got = lib(f"Fluid.{name} (after reassignment)", call)
                    _close(res, "C19/fluid-follows-reassigned-fields", got, want, 1e-13, f"Fluid.{name} after its fields were reassigned to T={T2!r}, api={api2!r}, sg={sg2!r}, gor={gor2!r}, salinity={sal2!r} (first evaluated with gor={gor!r})")
            res.labels["reassigned"] = True
        res.nontrivial = len(ps) >= 2
        res.labels["n_pressures"] = min(len(ps), 4)
        return res

    comp = case["comp"]
    gv = {"N2": comp["N2"], "H2S": comp["H2S"], "CO2": comp["CO2"], "Gas Specific Gravity": comp["sg"], "Reservoir Temperature (deg F)": comp["T"]}
    if kind == "sutton":
        nh = G.make_nonhydrocarbon_properties(comp["N2"], comp["H2S"], comp["CO2"])
        tpc, ppc = lib("pseudocritical_point_Sutton", G.pseudocritical_point_Sutton, comp["sg"], nh, comp["dryness"])
        # the array describes the supplied composition and keeps doing so when other compositions are built later
        # (another gas analysis, a table for another gas): nothing may be shared between the returned arrays
        other = case["comp_other"]
        nh_other = G.make_nonhydrocarbon_properties(other["N2"], other["H2S"], other["CO2"])
        build_pvt_gas({"N2": other["CO2"], "H2S": other["N2"], "CO2": other["H2S"], "Gas Specific Gravity": 0.7, "Reservoir Temperature (deg F)": 200.0}, "dry gas", 40.0)
        frac = [float(x) for x in nh["fraction"][:3]]
        if frac != [comp["N2"], comp["H2S"], comp["CO2"]]:
            res.bad("C19/sutton-point-of-the-supplied-composition", f"contaminant array built for (N2, H2S, CO2) = {(comp['N2'], comp['H2S'], comp['CO2'])} reads {frac} after another composition {(other['N2'], other['H2S'], other['CO2'])} and a table for a third gas were built")
        t_again, p_again = lib("pseudocritical_point_Sutton(again)", G.pseudocritical_point_Sutton, comp["sg"], nh, comp["dryness"])
        _close(res, "C19/sutton-point-of-the-supplied-composition", [t_again + 459.67, p_again], [tpc + 459.67, ppc], 1e-13, f"Sutton point of {comp} evaluated again after other compositions were built")
        del nh_other
        # zero-fraction extra component leaves the point unchanged
        e = case["extra"]
        nh2 = G.make_nonhydrocarbon_properties(comp["N2"], comp["H2S"], comp["CO2"], (e["name"], 0.0, e["mw"], e["tc"], e["pc"]))
        tpc2, ppc2 = lib("pseudocritical_point_Sutton(extra)", G.pseudocritical_point_Sutton, comp["sg"], nh2, comp["dryness"])
        _close(res, "C19/sutton-zero-fraction-component", [tpc2 + 459.67, ppc2], [tpc + 459.67, ppc], 1e-13, f"extra component {e} with zero fraction, composition {comp}")
        # no contaminants: hydrocarbon-only polynomials
        nh0 = G.make_nonhydrocarbon_properties(0.0, 0.0, 0.0)
        t0, p0 = lib("pseudocritical_point_Sutton(no contaminants)", G.pseudocritical_point_Sutton, comp["sg"], nh0, comp["dryness"])
        g = comp["sg"]
        if comp["dryness"] == "dry gas":
            want = [120.1 + 429 * g - 62.9 * g**2, 671.1 - 14 * g - 34.3 * g**2]
        else:
            want = [164.3 + 357.7 * g - 67.7 * g**2, 744 - 125.4 * g + 5.9 * g**2]
        _close(res, "C19/sutton-hydrocarbon-only", [t0 + 459.67, p0], want, 1e-13, f"gravity {g!r} {comp['dryness']} without contaminants")
        # unknown fluid type rejected by the function and by the builder
        for name, call in (
            ("pseudocritical_point_Sutton", lambda: G.pseudocritical_point_Sutton(comp["sg"], nh, case["bad_dryness"])),
            ("build_pvt_gas", lambda: build_pvt_gas(gv, case["bad_dryness"], 40.0)),
        ):
            try:
                call()
            except Exception:  # noqa: BLE001
                continue
            res.bad("C19/unknown-fluid-type-rejected", f"{name} accepted fluid type {case['bad_dryness']!r}")
        res.nontrivial = True
        return res

    # ---- table -----------------------------------------------------------------------------------
    tpc, ppc = lib("pseudocritical_point_Sutton", _sutton, comp)
    T = comp["T"]
    pmax = case["pmax"]
    tr = (T + 459.67) / (tpc + 459.67)
    if not (1.05 <= tr <= 3.0 and pmax / ppc <= 45.0 and ppc > 0):
        res.skipped = "Sutton point puts the state outside the Z-factor's range"
        return res
    res.labels["beyond_30_ppc"] = bool(pmax / ppc > 30.0)
    gv_in = gv
    res.labels["gas_values_container"] = case["container"]
    other = ["Gas Specific Gravity", "Reservoir Temperature (deg F)", "CO2", "N2", "H2S"]  # the same entries, listed in another order
    if case["container"] == "series":
        import pandas as pd

        gv_in = pd.Series(gv)
    elif case["container"] == "series-other-order":
        import pandas as pd

        gv_in = pd.Series({k: gv[k] for k in other})
    elif case["container"] == "dataframe-row":
        import pandas as pd

        gv_in = pd.DataFrame([{"Well": 7.0, **{k: gv[k] for k in other}}, {"Well": 8.0, **{k: 0.5 for k in other}}]).iloc[0]
    elif case["container"] == "dict-other-order":
        gv_in = {k: gv[k] for k in other}
    elif case["container"] == "dict-int-values" and float(comp["T"]).is_integer():
        gv_in = {**gv, "Reservoir Temperature (deg F)": int(comp["T"])}
    # the maximum pressure as float / Python int / numpy int, positionally or by keyword: the grid and every row are the same
    df = lib("build_pvt_gas", forms.call_with_pmax, build_pvt_gas, gv_in, comp["dryness"], pmax, case.get("pmax_form", "float"))
    res.labels["pmax_form"] = case.get("pmax_form", "float") + ("" if float(pmax).is_integer() else " (not whole: float)")
    want_p = np.arange(10.0, pmax, 10.0)
    need = ["temperature", "pressure", "Density", "z-factor", "compressibility", "viscosity", "pseudopressure"]
    missing = [c for c in need if c not in df]
    if missing:
        res.bad("C19/table-columns", f"missing columns {missing}")
        return res
    p_col = np.asarray(df["pressure"], float)
    if p_col.shape != want_p.shape or not np.allclose(p_col, want_p, rtol=1e-13, atol=0.0):
        res.bad("C19/table-pressure-grid", f"pressure column has {p_col.size} rows [{p_col[:1]}..{p_col[-1:]}], expected arange(10, {pmax!r}, 10) with {want_p.size} rows")
        return res
    sg = float(comp["sg"])
    rows = {
        "z-factor": [G.z_factor_DAK(T, q, tpc, ppc) for q in want_p],
        "Density": [G.density_DAK(T, q, tpc, ppc, sg) for q in want_p],
        "viscosity": [G.viscosity_Sutton(T, q, tpc, ppc, sg) for q in want_p],
        "compressibility": [G.compressibility_DAK(T, q, tpc, ppc) for q in want_p],
        "temperature": [T] * len(want_p),
    }
    for col, want in rows.items():
        _close(res, "C19/table-row-equals-correlation", df[col], want, 1e-12, f"column {col} of build_pvt_gas({gv}, {comp['dryness']!r}, {pmax!r})")
    f = 2 * want_p / (np.asarray(rows["viscosity"]) * np.asarray(rows["z-factor"]))
    m = np.concatenate([[0.0], np.cumsum(0.5 * (f[1:] + f[:-1]) * np.diff(want_p))])
    mp = np.asarray(df["pseudopressure"], float)
    if mp[0] != 0.0:
        res.bad("C19/table-pseudopressure", f"pseudopressure at the first row is {mp[0]!r}, expected 0")
    if len(m) > 1:
        _close(res, "C19/table-pseudopressure", mp[1:], m[1:], 1e-12, f"pseudopressure column vs cumulative trapezoid of 2p/(mu Z) for {gv}")
    res.nontrivial = len(want_p) >= 3
    res.labels["rows"] = "<10" if len(want_p) < 10 else ("10-99" if len(want_p) < 100 else ">=100")
    res.labels["pmax_multiple_of_10"] = float(pmax) % 10 == 0
    res.labels["dryness"] = comp["dryness"]
    return res
