"""C10 - Results always reflect the most recent simulation, never stale state (stateful)."""

from __future__ import annotations

import json

import numpy as np
from hypothesis import strategies as st

from vf import core, flowcase, grids, tables
from vf.core import Result

ID = "C10"
TITLE = "Results always reflect the most recent simulation, never stale state"
LEVEL = "exploration"
ENGINE = "hypothesis-stateful"
BUDGET = {"quick": 960, "thorough": 200000}
SHRINK = {"quick": True, "thorough": True}
RULE = (
    "Hypothesis RuleBasedStateMachine per run: an initial configuration (ideal or single-phase reservoir, table, "
    "pressure pair, nx 3..12; half of the ideal reservoirs carry a fluid table so that density-mode recovery applies; three strictly increasing time grids A, B (same length as A) and C (another length)) and "
    "up to 12 rule applications from {simulate(A), simulate(B), simulate(C), recovery_factor(), "
    "recovery_factor(density=True), recovery_factor_interpolator() evaluated at generated times inside and outside "
    "the grid, repeat the previous call}. After every step the object under test is compared with a fresh "
    "object on which only the latest simulate and the calls after it are replayed (times, field, returned arrays "
    "and interpolator values must be identical). Non-trivial = the history contains a recovery call, a later "
    "simulate and then a recovery/interpolator call. Distinct = hash of (configuration, history)."
    " Grids B and C may also be continuations of A (first time exactly equal to A's last)."
)
ASSUMPTIONS = [
    "identical means numpy.array_equal (the computation is deterministic)",
    "'repeating a call' covers any two identical calls within one simulation, also with other recovery calls in between (the interpolator follows the most recent recovery mode and is compared only while no recovery call intervenes)",
    "the interpolator is also evaluated at the simulated times and must reproduce there the array returned by the latest recovery call of the current simulation (rtol 1e-12)",
    "an additional operation beyond the property's alphabet: assigning the object's public fields (nx, pressures, fluid) to a second set of values and simulating again; the reference is then a fresh object constructed with the field values in force at the latest simulate",
    "a second reservoir object simulating in between (same nx, grids of the same or another length) must leave the object under test untouched; this operation is not recorded in the history (the fresh-object model ignores it)",
    "schedule-carrying simulate calls are not in the alphabet (the property's alphabet has none)",
    "calls made before any simulate must raise (any exception) and leave the object usable",
]
LEVEL_TEXT = (
    "Model-based stateful testing: generated call histories (shrunk as one value) against a reference model that "
    "is a fresh object replaying the suffix since the last simulate. Finds stale caches and state leaking "
    "between simulations in histories of up to 12 calls; longer or different alphabets are not explored."
)
TECHNIQUE = "stateful property-based testing (Hypothesis RuleBasedStateMachine) against a fresh-object replay model"


@st.composite
def config(draw):
    base = draw(flowcase.sim_case(nx_max=12, max_steps=30, schedules=False, with_library=False, time_kinds=("uniform", "quadratic", "geometric", "random")))
    base.pop("time")

    def grid(n):
        kind = draw(st.sampled_from(["uniform", "quadratic", "random"]))
        T = draw(st.floats(0.05, 20.0))
        if kind == "uniform":
            t = np.linspace(0.0, T, n)
        elif kind == "quadratic":
            t = np.linspace(0.0, np.sqrt(T), n) ** 2
        else:
            t = np.concatenate([[0.0], np.cumsum([draw(st.floats(1e-4, 2.0)) for _ in range(n - 1)])])
        return [float(x) for x in t + draw(st.sampled_from([0.0, 0.0, 0.5]))]

    if base["cls"] == "ideal" and draw(st.booleans()):
        # an IdealReservoir may be given a fluid table (the repository's tests do); density-mode recovery then works
        base["ideal_fluid"] = {"table": draw(tables.table_spec(60, False)), "container": draw(st.sampled_from(["dict", "dataframe"]))}
    na = draw(st.integers(3, 25))
    nc = draw(st.integers(3, 25).filter(lambda v: v != na))
    A = grid(na)
    # B and C are often *related* to A (shared end points, shared interior points, equal values, prefix, extension,
    # subsample): what an incremental / warm-start / "grid unchanged?" shortcut would have to tell apart
    mode_b = draw(st.sampled_from(["independent", "same-ends", "jitter-some", "equal", "same-ends", "continuation"]))
    if mode_b == "independent":
        B = grid(na)
    elif mode_b == "equal":
        B = list(A)
    elif mode_b == "continuation":
        # a history run in segments: B starts exactly where A ended (each simulate starts from the undisturbed reservoir)
        B = [float(x) for x in A[-1] + np.concatenate([[0.0], np.cumsum([draw(st.floats(1e-3, 2.0)) for _ in range(na - 1)])])]
    elif mode_b == "same-ends":
        w = sorted(draw(st.floats(0.0, 1.0)) for _ in range(na - 2))
        B = [A[0]] + [A[0] + (A[-1] - A[0]) * (0.02 + 0.96 * (k + 1 + v) / na) for k, v in enumerate(w)] + [A[-1]]
        B = [float(x) for x in np.maximum.accumulate(B)]
    else:
        B = list(A)
        for k in range(1, na - 1):
            if draw(st.booleans()):
                B[k] = float(B[k - 1] + (A[k + 1] - B[k - 1]) * draw(st.floats(0.05, 0.95)))
    mode_c = draw(st.sampled_from(["independent", "prefix", "extension", "subsample", "same-ends", "continuation"]))
    if mode_c == "prefix" and na > 3:
        C = list(A[: draw(st.integers(3, na - 1))])
    elif mode_c == "extension":
        # (increments accumulate: a time grid never steps backwards - such a grid is not an admissible input)
        C = list(A) + [float(x) for x in A[-1] + np.cumsum([draw(st.floats(1e-3, 2.0)) for _ in range(draw(st.integers(1, 5)))])]
    elif mode_c == "subsample" and na >= 6:
        C = list(A[::2])
        if len(C) == na:
            C = C[:-1]
    elif mode_c == "continuation":
        C = [float(x) for x in A[-1] + np.concatenate([[0.0], np.cumsum([draw(st.floats(1e-3, 2.0)) for _ in range(nc - 1)])])]
    elif mode_c == "same-ends":
        C = [float(x) for x in np.linspace(A[0], A[-1], nc)]
    else:
        C = grid(nc)
    if len(C) == na or len(C) < 3:
        C = grid(nc)
    base["grids"] = {"A": A, "B": B, "C": C}
    base["grid_modes"] = [mode_b, mode_c]
    # a second set of field values for the same object (the reservoir classes are mutable dataclasses: a sweep over
    # initial pressures re-uses one object, assigns fluid / pressures / nx and simulates again)
    base["alt"] = {"pair": draw(tables.pressure_pair()), "nx": draw(st.integers(3, 12)), "ratio": draw(st.floats(0.05, 0.95))}
    return base


def variant_cfg(cfg, variant):
    """The configuration with the alternative field values substituted (variant 'alt'), else cfg itself."""
    if variant != "alt" or "alt" not in cfg:
        return cfg
    c = dict(cfg)
    alt = cfg["alt"]
    c["nx"] = alt["nx"]
    if cfg["cls"] == "ideal":
        c["p_f"] = cfg["p_i"] * alt["ratio"] * 0.98
    else:
        c["pair"] = alt["pair"]
    return c


def assign_fields(obj, cfg, variant):
    """Give the used object the field values of the variant (public dataclass fields only)."""
    fresh = make_object(variant_cfg(cfg, variant))
    obj.nx, obj.pressure_fracface, obj.pressure_initial, obj.fluid = fresh.nx, fresh.pressure_fracface, fresh.pressure_initial, fresh.fluid


def make_object(cfg):
    case = dict(cfg)
    case["time"] = {"kind": "steps", "steps": [1.0], "start": 0.0}
    case["schedule"] = {"kind": "none"}
    if cfg["cls"] == "ideal" and cfg.get("ideal_fluid"):
        from bluebonnet.flow import FlowProperties, IdealReservoir

        tab = tables.build(cfg["ideal_fluid"]["table"])
        p = tab["pressure"]
        p_i = float(p[-1])
        p_f = float(p[0] + (cfg["p_f"] / cfg["p_i"]) * 0.9 * (p_i - p[0]))
        fluid = core.lib("FlowProperties", FlowProperties, tables.as_container(tab, cfg["ideal_fluid"]["container"]), p_i)
        return IdealReservoir(cfg["nx"], p_f, p_i, fluid)
    return flowcase.run(case, simulate=False).res


def has_density(cfg):
    return cfg["cls"] != "ideal" or bool(cfg.get("ideal_fluid"))


def op_key(op):
    return json.dumps(op)


def epoch_repeat_check(history, results, res):
    """Within one simulation epoch the same call with the same arguments returns the same result, whatever other
    recovery / interpolator calls happened in between (the interpolator legitimately follows the most recent
    recovery mode, so it is only compared while no recovery call intervenes)."""
    seen = {}
    for op, (status, value) in zip(history, results):
        if op[0] in ("sim", "setsim"):
            seen = {}
            continue
        if op[0] in ("rf", "rfd"):
            seen = {k: v for k, v in seen.items() if not k.startswith('["interp"')}
        if status != "ok":
            continue
        k = op_key(op)
        if k in seen and not same(seen[k], value):
            res.bad("C10/repeat-gives-same-result", f"{op[0]} returns a different result than an earlier identical call in the same simulation (history {history})")
            return
        seen.setdefault(k, value)


def interpolator_follows_latest_recovery(history, results, res):
    """Within one simulation the interpolator describes the recovery most recently asked for: at the simulated
    times it reproduces the array that the latest recovery call of this simulation returned."""
    op, (status, value) = history[-1], results[-1]
    if op[0] != "interp" or status != "ok":
        return
    latest = None
    for o, (st_, v) in zip(history[:-1][::-1], results[:-1][::-1]):
        if o[0] in ("sim", "setsim"):
            break
        if o[0] in ("rf", "rfd") and st_ == "ok":
            latest = (o[0], v)
            break
    if latest is None:
        return
    name, rec = latest
    at_nodes = value[len(op[1]):]
    if at_nodes.shape != rec.shape or not np.allclose(at_nodes, rec, rtol=1e-12, atol=1e-300, equal_nan=True):
        k = int(np.argmax(np.abs(at_nodes - rec))) if at_nodes.shape == rec.shape else 0
        d = f"element {k}: interpolator {at_nodes[k]!r}, recovery {rec[k]!r}" if at_nodes.shape == rec.shape else f"shapes {at_nodes.shape} vs {rec.shape}"
        res.bad("C10/interpolator-follows-latest-recovery", f"the interpolator does not reproduce the recovery returned by the latest recovery call ({'density' if name == 'rfd' else 'flux'} mode) at the simulated times: {d} (history {history})")


def apply_op(obj, op, cfg):
    """Execute one operation; -> ('ok', value) or ('raised', repr)."""
    try:
        if op[0] == "sim":
            obj.simulate(np.array(cfg["grids"][op[1]], float))
            return "ok", None
        if op[0] == "setsim":
            assign_fields(obj, cfg, op[1])
            obj.simulate(np.array(cfg["grids"][op[2]], float))
            return "ok", None
        if op[0] == "rf":
            return "ok", np.array(obj.recovery_factor(), float, copy=True)
        if op[0] == "rfd":
            return "ok", np.array(obj.recovery_factor(density=True), float, copy=True)
        if op[0] == "interp":
            f = obj.recovery_factor_interpolator()
            # the generated query times, followed by the simulated times themselves
            return "ok", np.concatenate([np.array(f(np.array(op[1], float)), float, copy=True).ravel(), np.array(f(np.asarray(obj.time, float)), float, copy=True).ravel()])
    except Exception as e:  # noqa: BLE001
        return "raised", f"{type(e).__name__}: {e}"
    raise ValueError(op)


def same(a, b):
    if a is None or b is None:
        return a is None and b is None
    return a.shape == b.shape and np.array_equal(a, b, equal_nan=True)


def compare_with_fresh(cfg, history, obj, status, value, res: Result):
    """The reference model: a fresh object replaying the suffix that starts at the last simulate."""
    last_sim = max((i for i, op in enumerate(history) if op[0] in ("sim", "setsim")), default=None)
    op = history[-1]
    what = f"after {history}"
    if last_sim is None:
        if status != "raised":
            res.bad("C10/raises-before-simulate", f"{op} returned normally before any simulate ({what})")
        return
    # the field values in force at the latest simulate: those of the most recent 'setsim', else the original ones
    variant = next((o[1] for o in history[: last_sim + 1][::-1] if o[0] == "setsim"), "orig")
    fresh = make_object(variant_cfg(cfg, variant))
    f_status, f_value = "ok", None
    for o in history[last_sim:]:
        f_status, f_value = apply_op(fresh, ["sim", o[2]] if o[0] == "setsim" else o, cfg)
    if f_status == "raised":
        if status != "raised":
            res.bad("C10/matches-fresh-object", f"fresh object raises {f_value} where the used object returned normally ({what})")
        return
    if status == "raised":
        res.bad("C10/matches-fresh-object", f"{op} raised {value} on the used object but not on a fresh object replaying {history[last_sim:]} (full history {history})")
        return
    if not np.array_equal(np.asarray(obj.time), np.asarray(fresh.time)):
        res.bad("C10/time-reflects-latest-simulation", f"stored times differ from a fresh object's ({what})")
    if not same(np.asarray(obj.pseudopressure, float), np.asarray(fresh.pseudopressure, float)):
        res.bad("C10/field-reflects-latest-simulation", f"stored pseudopressure differs from a fresh object's ({what})")
    if not same(value, f_value):
        d = ""
        if value is not None and f_value is not None and value.shape == f_value.shape and value.size:
            k = int(np.argmax(np.abs(value - f_value)))
            d = f": element {k} is {value[k]!r}, fresh object gives {f_value[k]!r}"
        elif value is not None and f_value is not None:
            d = f": shapes {value.shape} vs {f_value.shape}"
        res.bad("C10/matches-fresh-object", f"result of {op[0]} differs from a fresh object replaying {history[last_sim:]}{d} (full history {history})")


def nontrivial(history):
    stage = 0
    for op in history:
        if stage == 0 and op[0] in ("rf", "rfd", "interp"):
            stage = 1
        elif stage == 1 and op[0] in ("sim", "setsim"):
            stage = 2
        elif stage == 2 and op[0] in ("rf", "rfd", "interp"):
            return True
    return False


def run_history(cfg, history) -> Result:
    """Replay a whole history on one object with the model comparison after every step (no Hypothesis)."""
    res = Result()
    obj = make_object(cfg)
    prev = None
    results = []
    for i, op in enumerate(history):
        status, value = apply_op(obj, op, cfg)
        results.append((status, value))
        compare_with_fresh(cfg, history[: i + 1], obj, status, value, res)
        epoch_repeat_check(history[: i + 1], results, res)
        interpolator_follows_latest_recovery(history[: i + 1], results, res)
        if i > 0 and history[i - 1] == op and op[0] not in ("sim", "setsim") and prev is not None and prev[0] == "ok" and status == "ok":
            if not same(prev[1], value):
                res.bad("C10/repeat-gives-same-result", f"repeating {op[0]} changed its result (history {history[: i + 1]})")
        prev = (status, value)
        if res.violations:
            break
    res.nontrivial = nontrivial(history)
    res.labels["cls"] = cfg["cls"]
    res.labels["len"] = len(history)
    res.labels["simulates"] = sum(1 for o in history if o[0] in ("sim", "setsim"))
    res.labels["has_length_change"] = len({len(cfg["grids"][o[-1]]) for o in history if o[0] in ("sim", "setsim")}) > 1
    return res


def check_case(case) -> Result:
    return run_history(case["config"], [list(o) for o in case["history"]])


def strategy(tier):  # not used (custom worker); present for interface completeness
    return st.nothing()


def run_worker(ctx: core.WorkerContext):
    import hypothesis
    from hypothesis import HealthCheck, Phase, settings
    from hypothesis.stateful import RuleBasedStateMachine, initialize, invariant, precondition, rule, run_state_machine_as_test

    state = {"last": None, "generating": True}
    queries = st.lists(st.floats(-1.0, 30.0), min_size=1, max_size=5)

    class Machine(RuleBasedStateMachine):
        def __init__(self):
            super().__init__()
            self.cfg = None
            self.history = []
            self.obj = None
            self.pending = None  # (status, value) of the op just executed
            self.res = Result()
            self.prev = None
            self.results = []

        @initialize(cfg=config())
        def setup(self, cfg):
            self.cfg = cfg
            self.obj = make_object(cfg)

        def _do(self, op):
            status, value = apply_op(self.obj, op, self.cfg)
            self.history.append(op)
            self.results.append((status, value))
            self.pending = (status, value)
            compare_with_fresh(self.cfg, self.history, self.obj, status, value, self.res)
            epoch_repeat_check(self.history, self.results, self.res)
            interpolator_follows_latest_recovery(self.history, self.results, self.res)
            if len(self.history) > 1 and self.history[-2] == op and op[0] not in ("sim", "setsim") and self.prev and self.prev[0] == "ok" and status == "ok":
                if not same(self.prev[1], value):
                    self.res.bad("C10/repeat-gives-same-result", f"repeating {op[0]} changed its result (history {self.history})")
            self.prev = (status, value)

        # three separate rules so that about half of the steps are simulate calls
        @rule()
        def simulate_a(self):
            self._do(["sim", "A"])

        @rule()
        def simulate_b(self):
            self._do(["sim", "B"])

        @rule()
        def simulate_c(self):
            self._do(["sim", "C"])

        @precondition(lambda self: self.cfg is not None and "alt" in self.cfg)
        @rule(variant=st.sampled_from(["alt", "orig"]), grid=st.sampled_from(["A", "B", "C"]))
        def assign_fields_and_simulate(self, variant, grid):
            self._do(["setsim", variant, grid])

        @rule()
        def recovery_factor(self):
            self._do(["rf"])

        @precondition(lambda self: self.cfg is not None and has_density(self.cfg))
        @rule()
        def recovery_factor_density(self):
            self._do(["rfd"])

        @rule(q=queries)
        def interpolator(self, q):
            self._do(["interp", q])

        # another reservoir object (same class, the alternative or the same field values) simulates a grid of the same
        # length in between: the object under test must not notice (no buffers / caches shared between objects)
        @precondition(lambda self: self.obj is not None and hasattr(self.obj, "pseudopressure") and "alt" in (self.cfg or {}))
        @rule(variant=st.sampled_from(["alt", "orig"]), grid=st.sampled_from(["A", "B", "C"]))
        def another_object_simulates(self, variant, grid):
            before_m = np.array(self.obj.pseudopressure, float, copy=True)
            before_t = np.array(self.obj.time, float, copy=True)
            cfg_o = dict(variant_cfg(self.cfg, variant), nx=int(self.obj.nx))
            other = make_object(cfg_o)
            try:
                other.simulate(np.array(self.cfg["grids"][grid], float))
                other.recovery_factor()
            except Exception:  # noqa: BLE001 - the other object's problems are not this object's
                pass
            if not (same(np.asarray(self.obj.pseudopressure, float), before_m) and same(np.asarray(self.obj.time, float), before_t)):
                self.res.bad("C10/unaffected-by-other-objects", f"the stored field / times of the object changed when ANOTHER reservoir object (nx={int(self.obj.nx)}) simulated grid {grid} (history {self.history})")
            self.pending = ("ok", None)

        # bursts of two to four recovery / interpolator calls within one simulation (every call is compared with the
        # fresh-object model as it is made): orders such as rf, rf(density), rf, interpolator would otherwise be rare
        @precondition(lambda self: self.cfg is not None)
        @rule(ops=st.lists(st.sampled_from(["rf", "rfd", "interp", "rf", "rfd"]), min_size=2, max_size=4), q=queries)
        def recovery_burst(self, ops, q):
            for name in ops:
                if name == "rfd" and not has_density(self.cfg):
                    name = "rf"
                self._do([name, q] if name == "interp" else [name])
                if self.res.violations:
                    break

        @precondition(lambda self: len(self.history) > 0 and self.history[-1][0] not in ("sim", "setsim"))
        @rule()
        def repeat_last(self):
            self._do(list(self.history[-1]))

        @invariant()
        def agrees_with_fresh_object(self):
            if self.pending is None or self.cfg is None:
                return
            self.pending = None
            case = {"config": self.cfg, "history": [list(o) for o in self.history]}
            new = ctx.triage(case, self.res)
            if new:
                state["generating"] = False
                state["last"] = {"case": case, "violations": [v.as_dict() for v in new]}
                raise core._Found(new[0].oracle)

        def teardown(self):
            if self.cfg is None or not self.history:
                return
            case = {"config": self.cfg, "history": [list(o) for o in self.history]}
            r = Result(nontrivial=nontrivial(self.history))
            r.labels["cls"] = self.cfg["cls"]
            r.labels["len"] = len(self.history)
            r.labels["simulates"] = min(4, sum(1 for o in self.history if o[0] in ("sim", "setsim")))
            r.labels["fields_reassigned"] = any(o[0] == "setsim" for o in self.history)
            r.labels["has_length_change"] = len({len(self.cfg["grids"][o[-1]]) for o in self.history if o[0] in ("sim", "setsim")}) > 1
            r.labels["grid_B"] = self.cfg.get("grid_modes", ["?", "?"])[0]
            r.labels["grid_C"] = self.cfg.get("grid_modes", ["?", "?"])[1]
            r.counts["steps"] = len(self.history)
            ctx.stats.record(case, r, keep_sample=state["generating"])

    phases = [Phase.explicit, Phase.generate] + ([Phase.shrink] if ctx.shrink else [])
    sett = settings(
        max_examples=ctx.n,
        stateful_step_count=12,
        database=None,
        deadline=None,
        derandomize=False,
        report_multiple_bugs=False,
        phases=phases,
        suppress_health_check=list(HealthCheck),
        print_blob=False,
        verbosity=hypothesis.Verbosity.quiet,
    )
    try:
        run_state_machine_as_test(hypothesis.seed(ctx.seed)(Machine), settings=sett)
    except core._Found:
        ctx.stats.failure = state["last"]
    except hypothesis.errors.HypothesisException as e:
        if state["last"] is not None:
            ctx.stats.failure = state["last"]
        else:
            raise core.HarnessProblem(f"hypothesis: {type(e).__name__}: {e}") from e
