"""C13 - Hand-coded derivative functions equal the true derivatives of their parents."""

from __future__ import annotations

import math

import numpy as np

from hypothesis import strategies as st

from vf import gens
from vf.core import Result, history_independent, lib
from vf.dual import Dual

ID = "C13"
TITLE = "Hand-coded derivative functions equal the true derivatives of their parents"
LEVEL = "exploration"
BUDGET = {"quick": 12000, "thorough": 2000000}
SHRINK = {"quick": True, "thorough": True}
RULE = (
    "Hypothesis draws an oil (as C12: T, API, gas gravity, GOR with p_b > 50 psia), a pressure in [15, 2.5 p_b] "
    "(p_b itself and its float neighbours with probability 1/4), a water state (T 60..400 F, p 15..15000 psia) "
    "and a gas pseudocritical point (T_pc -120..0 F, p_pc 550..800 psia). The parent functions are "
    "differentiated by forward-mode AD (dual numbers pushed through the library's own code) and cross-checked "
    "against a Richardson finite difference; if the AD pass fails or disagrees, the finite difference is used "
    "with a 1e-6 tolerance (counted as ad_fallback). Non-trivial = p < p_b (GOR derivative non-zero, saturated "
    "compressibility branch exercised) or p within one ulp of p_b. Distinct = hash of the case record."
)
ASSUMPTIONS = [
    "derivative of the parent is obtained by forward-mode AD of the parent's own code, tolerance 1e-12 relative",
    "saturated oil compressibility: the divisor of the defining combination may be B_o(p_b) (what the code uses) or B_o(p); the statement names the three ingredients only",
    "the gas FVF is only evaluated for reduced pressure <= 30 (range of the Z-factor correlation)",
]
LEVEL_TEXT = (
    "Each hand-coded derivative is compared with the exact derivative (automatic differentiation, no step "
    "size) of the library's own parent function at generated inputs, so a wrong exponent or coefficient "
    "anywhere in the box is visible; the inline dRs/dp copy inside oil_compressibility_Standing is "
    "cross-checked against dgor_dpressure_Standing. Exploration, not proof."
)


@st.composite
def strategy_(draw):
    oil = draw(gens.oil_params())
    where = draw(st.sampled_from(["any", "any", "any", "pb", "pb-", "pb+", "below"]))
    frac = draw(st.floats(0.0, 1.0))
    return {
        "oil": oil,
        "where": where,
        "frac": frac,
        "water": {"T": draw(st.floats(60.0, 400.0)), "p": draw(st.one_of(st.floats(15.0, 15000.0), gens.loguniform(15.0, 15000.0)))},
        "tpc": draw(st.floats(-120.0, 0.0)),
        "ppc": draw(st.floats(550.0, 800.0)),
        # standard conditions: the defaults (60 F, 14.7 psia) or another common pressure / temperature base
        # the form in which the pressure is handed to the derivative functions: Python / numpy scalars of either kind
        # and 0-d arrays (elements of an integer pressure column, loop variables over np.arange, ...)
        "p_form": draw(st.sampled_from(["float", "float", "float", "int", "np.int64", "np.int32", "np.float64", "np.float32", "0d-int64", "0d-float64"])),
        "std": draw(st.one_of(st.none(), st.tuples(st.sampled_from([60.0, 59.0, 68.0, 32.0]), st.sampled_from([14.7, 14.65, 14.696, 14.73, 15.025])))),
    }


def strategy(tier):
    return strategy_()


def _richardson(f, x, h):
    d1 = (f(x + h) - f(x - h)) / (2 * h)
    d2 = (f(x + h / 2) - f(x - h / 2)) / h
    return (4 * d2 - d1) / 3


def _parent_derivative(res, name, f, x, one_sided_ok=True):
    """d f / d x by AD through the library's code, validated by a finite difference. -> (value, tol_rel)."""
    fd = _richardson(lambda t: float(f(t)), x, 1e-4 * max(abs(x), 1.0))
    try:
        out = f(Dual(x, 1.0))
        ad = out.d if isinstance(out, Dual) else 0.0
        ok = math.isfinite(ad) and abs(ad - fd) <= 1e-5 * max(abs(fd), abs(ad)) + 1e-300
    except Exception:  # noqa: BLE001 - AD could not be pushed through (e.g. math.* on a Dual)
        ok = False
        ad = float("nan")
    if ok:
        return ad, 1e-12
    res.labels["ad_fallback"] = name
    return fd, 1e-6


def check_case(case) -> Result:
    from bluebonnet.fluids import gas as G
    from bluebonnet.fluids import oil as O
    from bluebonnet.fluids import water as W

    res = Result()
    o = case["oil"]
    T, api, sg, gor = gens.oil_tuple(o)
    pb = float(lib("pressure_bubblepoint_Standing", O.pressure_bubblepoint_Standing, T, api, sg, gor))
    if not (math.isfinite(pb) and pb > 50):
        res.skipped = "bubble point <= 50 psia"
        return res
    where = case["where"]
    if where == "pb":
        p = pb
    elif where == "pb-":
        # just below the bubble point, but beyond the rounding of p_b and Rs(p) themselves (a few ulp): within an
        # ulp or two of the branch point the parent's value is decided by rounding (e.g. a clamp Rs <= Rsi), so
        # "the derivative of the parent" is not a meaningful reference there
        p = pb * (1.0 - (1e-12, 1e-9, 1e-7)[int(case["frac"] * 3) % 3])
    elif where == "pb+":
        p = math.nextafter(pb, math.inf)
    elif where == "below":
        p = 15.0 + case["frac"] * (pb - 15.0) * (1 - 1e-12)
    else:
        p = 15.0 + case["frac"] * (2.5 * pb - 15.0)
        if 0 < pb - p < 1e-12 * pb:
            p = pb * (1.0 - 1e-12)
    form = case.get("p_form", "float")
    if form in ("int", "np.int64", "np.int32", "0d-int64") and where not in ("pb", "pb-", "pb+"):
        q = float(round(p))
        # (a whole number that lands within rounding distance below p_b - e.g. 51 for p_b = 51 + 2 ulp - sits in the
        # sliver where the parent's value is decided by rounding, see "pb-")
        if q >= 15 and (q < pb) == (p < pb) and not (0 < pb - q < 1e-12 * pb):
            p = q
        else:
            form = "float"
    elif form in ("int", "np.int64", "np.int32", "0d-int64"):
        form = "float"
    if form == "np.float32":
        q = float(np.float32(p))
        # within a float32 ulp of p_b the library's own comparison (made in single precision for a float32 scalar) and
        # the float64 reference may legitimately fall on different sides: keep clear of it
        if abs(q - pb) > 1e-5 * pb and (q < pb) == (p < pb):
            p = q
        else:
            form = "float"
    res.labels["p_form"] = form

    def given(x):
        """The pressure x in the generated argument form."""
        return {"float": float, "int": lambda v: int(v), "np.int64": lambda v: np.int64(v), "np.int32": lambda v: np.int32(v), "np.float64": np.float64, "np.float32": np.float32, "0d-int64": lambda v: np.array(int(v), dtype=np.int64), "0d-float64": lambda v: np.array(v, dtype=np.float64)}[form](x)

    res.labels["where"] = "below" if p < pb else ("at" if p == pb else "above")
    res.nontrivial = p < pb or where in ("pb", "pb+", "pb-")

    # ---- water: dBw/dp -----------------------------------------------------------------------------
    Tw, pw = case["water"]["T"], case["water"]["p"]
    want, tol = _parent_derivative(res, "b_water_McCain", lambda q: W.b_water_McCain(Tw, q), pw)
    got = float(lib("b_water_McCain_dp", W.b_water_McCain_dp, Tw, pw))
    res.check("C13/dBw-dp", abs(got - want), tol * abs(want), f"b_water_McCain_dp({Tw!r},{pw!r})={got!r} AD of parent={want!r};")

    # ---- dBob/dRs at generated GOR values (initial GOR and the GOR at p) ----------------------------
    rs_p = float(lib("solution_gor_Standing", O.solution_gor_Standing, T, p, api, sg, gor))
    for r in {gor, rs_p}:
        want, tol = _parent_derivative(res, "b_o_bubblepoint_Standing", lambda q: O.b_o_bubblepoint_Standing(T, api, sg, q), r)
        got = float(lib("db_o_dgor_Standing", O.db_o_dgor_Standing, T, api, sg, r))
        res.check("C13/dBo-dRs", abs(got - want), tol * abs(want), f"db_o_dgor_Standing(T={T!r},api={api!r},sg={sg!r},Rs={r!r})={got!r} AD={want!r};")

    # ---- dRs/dp ------------------------------------------------------------------------------------
    got = float(lib("dgor_dpressure_Standing", O.dgor_dpressure_Standing, T, given(p), api, sg, gor))
    if p >= pb:
        if got != 0.0:
            res.bad("C13/dRs-dp-zero-above", f"dgor_dpressure_Standing={got!r} at p={p!r} >= p_b={pb!r} oil={o}")
    else:
        near_pb = (pb - p) < 2e-4 * pb  # the finite-difference cross-check would straddle the kink
        if near_pb:
            try:
                out = O.solution_gor_Standing(T, Dual(p, 1.0), api, sg, gor)
                want, tol = (out.d if isinstance(out, Dual) else 0.0), 1e-12
            except Exception:  # noqa: BLE001 - the parent coerces its argument (np.asarray / float): no AD through it
                # one-sided (towards lower pressure) second-order difference quotients, Richardson-extrapolated:
                # every evaluation point stays on the saturated side of the kink
                f = lambda q: float(O.solution_gor_Standing(T, q, api, sg, gor))  # noqa: E731
                h = 1e-3 * p
                d1 = (3 * f(p) - 4 * f(p - h) + f(p - 2 * h)) / (2 * h)
                d2 = (3 * f(p) - 4 * f(p - h / 2) + f(p - h)) / h
                want, tol = (4 * d2 - d1) / 3, 1e-6
                res.labels["ad_fallback"] = "solution_gor_Standing (near p_b)"
        else:
            want, tol = _parent_derivative(res, "solution_gor_Standing", lambda q: O.solution_gor_Standing(T, q, api, sg, gor), p)
        if form == "np.float32":
            tol = max(tol, 1e-6)  # single-precision argument: the function may work in single precision
        res.check("C13/dRs-dp", abs(got - want), tol * abs(want), f"dgor_dpressure_Standing(p={p!r} as {form}) = {got!r} AD of Rs={want!r} oil={o};")

    # ---- each of them is a function of its arguments only -------------------------------------------------
    lib("dgor_dpressure_Standing", history_independent, res, "C13/independent-of-call-history", O.dgor_dpressure_Standing, (T, p, api, sg, gor), [(T, p, api, sg, gor * 1.5), (T + 1e-3, 0.5 * p, api, sg, gor), (T, p * 1.5, api + 1, sg, gor)], "dgor_dpressure_Standing")
    lib("db_o_dgor_Standing", history_independent, res, "C13/independent-of-call-history", O.db_o_dgor_Standing, (T, api, sg, gor), [(T, api, sg, gor * 1.5), (T + 1e-3, api + 1, sg, gor)], "db_o_dgor_Standing")
    lib("b_water_McCain_dp", history_independent, res, "C13/independent-of-call-history", W.b_water_McCain_dp, (Tw, pw), [(Tw + 1e-3, pw), (Tw, 0.5 * pw)], "b_water_McCain_dp")
    # ---- all-pressure oil compressibility ----------------------------------------------------------
    tpc, ppc = case["tpc"], case["ppc"]
    if p / ppc > 30.0:
        res.labels["co_skipped_pr_gt_30"] = True
        return res
    std = tuple(case["std"]) if case.get("std") else (60, 14.7)
    if case.get("std"):
        co = float(lib("oil_compressibility_Standing", O.oil_compressibility_Standing, T, given(p), api, sg, gor, tpc, ppc, temperature_standard=std[0], pressure_standard=std[1]))
        res.labels["standard_conditions"] = "non-default"
    else:
        co = float(lib("oil_compressibility_Standing", O.oil_compressibility_Standing, T, given(p), api, sg, gor, tpc, ppc))
    if p >= pb:
        want = float(lib("oil_compressibility_undersat_Spivey", O.oil_compressibility_undersat_Spivey, T, p, api, sg, gor))
        res.check("C13/co-undersaturated", abs(co - want), (1e-5 if form == "np.float32" else 1e-13) * abs(want), f"oil_compressibility_Standing={co!r} Spivey={want!r} at p={p!r} >= p_b;")
    else:
        bg = float(lib("b_factor_DAK", G.b_factor_DAK, T, p, tpc, ppc, std[0], std[1]))
        dbo = float(lib("db_o_dgor_Standing", O.db_o_dgor_Standing, T, api, sg, rs_p))
        drs = float(lib("dgor_dpressure_Standing", O.dgor_dpressure_Standing, T, p, api, sg, gor))
        num = (bg - dbo) * drs
        bob = float(lib("b_o_bubblepoint_Standing", O.b_o_bubblepoint_Standing, T, api, sg, gor))
        bop = float(lib("b_o_Standing", O.b_o_Standing, T, p, api, sg, gor))
        err = min(abs(co * bob - num), abs(co * bop - num))
        res.check(
            "C13/co-saturated-combination",
            err,
            (1e-5 if form == "np.float32" else 1e-11) * max(abs(num), abs(bg * drs)),
            f"c_o={co!r}: c_o*B_ob={co * bob!r}, c_o*B_o(p)={co * bop!r}, (B_g - dBo/dRs) dRs/dp={num!r} at p={p!r} oil={o} tpc={tpc!r} ppc={ppc!r};",
        )
    return res
