"""C16 - Multiphase storage is a pressure derivative; diffusivity is mobility over it."""

from __future__ import annotations

import numpy as np
from hypothesis import strategies as st

from vf import forms
from vf import mptables as mp
from vf.core import Result, lib
from vf.props import c15

ID = "C16"
TITLE = "Multiphase storage is a pressure derivative; diffusivity is mobility over it"
LEVEL = "exploration"
BUDGET = {"quick": 4000, "thorough": 600000}
SHRINK = {"quick": True, "thorough": True}
RULE = (
    "Tables, relative-permeability sets, reference densities and porosities as C15 (shipped oil+water table, "
    "constant-property, linear-in-pressure and kinked families, with and without vaporised oil; water at or below "
    "residual or mobile), plus 1..12 evaluation points (pressure strictly inside the table at least 1 psi from any "
    "node, or exactly on a node; oil saturation in [0, 1-Sw]). Non-trivial = a pressure-dependent table with at "
    "least one off-node evaluation point, or a constant-property table (where the result must vanish). Distinct = "
    "hash of the case record. Reference densities are 1e-4..1e2, or exactly 0 (int or float) for one component left out of the "
    "mass balance (water in one case in six, oil or gas in one in twelve each)."
    " One pressure-dependent case in three also passes cubic-spline callables of the same table to the functions and compares with the documented sums evaluated with those callables."
)
ASSUMPTIONS = [
    "stored mass per unit volume: phi [rho_o (Rv Sg/Bg + So/Bo) + rho_g (Rs So/Bo + Sg/Bg) + rho_w Sw/Bw] (docs/background.md; the `S_g/b_o` in the alpha section of the document is a typo against its own mass-balance equations)",
    "tables are piecewise linear in pressure; the independent derivative is a Richardson-extrapolated central difference (steps 0.4 and 0.2 psi) of the harness's own storage function, compared at points >= 1 psi from any node with tolerance 1e-5 of the sum of the absolute component derivatives plus 1.5x the truncation error that a plain +-0.5 psi central difference has on the same table; on nodes (kinks) the tolerance is 0.6 of the jump of the one-sided derivatives",
    "exact zero is demanded as |c| <= 1e-12 * (storage per psi scale) for pressure-independent tables",
]
LEVEL_TEXT = (
    "The library's total compressibility is compared with an independent finite difference of the documented "
    "storage function (harness's own table lookup), must vanish on constant tables and scale with porosity; "
    "mobility and diffusivity are compared with the documented formulas and with the table built by "
    "from_table. Exploration."
)


@st.composite
def strategy_(draw):
    c = draw(c15.strategy_())
    # the tables of this property stay in psi / cP: the library differences storage over +-0.5 *table units*, which the
    # property states as +-0.5 psi, so a table in Pa or MPa is a different (and unit-dependent) statement
    c["mu_unit"], c["p_unit"] = 0, 1.0
    n = draw(st.integers(1, 12))
    c["points"] = [
        {"pfrac": draw(st.floats(0.0, 1.0)), "on_node": draw(st.integers(0, 4)) == 0, "sofrac": draw(st.floats(0.0, 1.0))}
        for _ in range(n)
    ]
    c["phi_factor_exp"] = draw(st.integers(-4, 1))
    # the form of a scalar pressure argument (float32 excluded: c is a difference over 1 psi)
    c["p_form"] = draw(st.sampled_from(["int", "np.int64", "np.int32", "np.float64", "0d-float64", "0d-int64"]))
    return c


def strategy(tier):
    return strategy_()


def check_case(case) -> Result:
    from bluebonnet.flow import FlowPropertiesTwoPhase
    from bluebonnet.flow.flowproperties import alpha_multiphase, compressibility_combined_func, lambda_combined_func

    res = Result()
    tab, kr_table = c15.setup(case)
    rho, phi, sw = case["rho"], case["phi"], case["Sw"]
    p_nodes = tab["pressure"]
    fam = case["table"]["family"]
    res.labels["table"] = fam
    # ---- evaluation points: inside an interval at least 1 psi from both nodes, or exactly on an interior node
    widths = np.diff(p_nodes)
    wide = np.flatnonzero(widths > 2.0)
    ps, on_node, so = [], [], []
    for pt in case["points"]:
        if pt["on_node"] and len(p_nodes) > 2:
            k = 1 + int(pt["pfrac"] * (len(p_nodes) - 2 - 1e-9))
            ps.append(float(p_nodes[k]))
            on_node.append(True)
        elif len(wide):
            u = pt["pfrac"] * len(wide)
            k = wide[min(int(u), len(wide) - 1)]
            ps.append(float(p_nodes[k] + 1.0 + (u - int(u)) * (widths[k] - 2.0)))
            on_node.append(False)
        else:
            continue
        so.append((1 - sw) * pt["sofrac"])
    if not ps:
        res.skipped = "no admissible evaluation point (table spacing <= 2 psi)"
        return res
    ps, on_node, so = np.array(ps), np.array(on_node), np.array(so)
    pvt = mp.library_pvt_dict(tab, rho)
    kr = mp.library_kr_dict(kr_table)
    # ---- the documented sums with the CALLER'S property functions -------------------------------------------
    # the functions take any callables of pressure (their docstrings say "function of pressure"): with smooth spline
    # interpolants of the same table (interp1d kind="cubic", extrapolating) the results must be the documented storage
    # difference and mobility sum evaluated with those very callables, not with a linear reading of their nodes
    if fam != "constant" and len(tab["pressure"]) >= 5 and len(ps) % 3 == 0:
        from scipy.interpolate import interp1d as _i1d

        f = {k: _i1d(tab["pressure"], tab[k], kind="cubic", fill_value="extrapolate") for k in mp.PVT_COLS}
        pvt_c = dict(f, **rho)

        def stor(q):
            sg = 1 - so - sw
            return phi * (rho["rho_o0"] * (f["Rv"](q) * sg / f["Bg"](q) + so / f["Bo"](q)) + rho["rho_g0"] * (f["Rs"](q) * so / f["Bo"](q) + sg / f["Bg"](q)) + rho["rho_w0"] * sw / f["Bw"](q))

        def parts_abs(q):
            sg = 1 - so - sw
            return phi * (abs(rho["rho_o0"]) * (np.abs(f["Rv"](q) * sg / f["Bg"](q)) + np.abs(so / f["Bo"](q))) + abs(rho["rho_g0"]) * (np.abs(f["Rs"](q) * so / f["Bo"](q)) + np.abs(sg / f["Bg"](q))) + abs(rho["rho_w0"]) * np.abs(sw / f["Bw"](q)))

        positive = all(np.all(np.asarray(f[k](np.concatenate([ps - 0.5, ps + 0.5])), float) > 0) for k in ("Bo", "Bg", "Bw", "mu_o", "mu_g", "mu_w"))
        if positive:  # a spline may overshoot below zero between widely spaced rows: such callables are not fluid properties
            c_spl = np.asarray(lib("compressibility_combined_func(spline callables)", compressibility_combined_func, ps, so, phi, sw, pvt_c), float)
            c05 = (stor(ps + 0.5) - stor(ps - 0.5)) / 1.0
            c025 = (stor(ps + 0.25) - stor(ps - 0.25)) / 0.5
            tol_c = 2.0 * np.abs(c05 - c025) + 1e-9 * parts_abs(ps)
            k = int(np.argmax(np.abs(c_spl - c05) / np.maximum(tol_c, 1e-300)))
            res.check("C16/storage-derivative-with-the-callers-functions", float(np.abs(c_spl - c05)[k]), float(tol_c[k]), f"spline property functions: library c={c_spl[k]!r} vs +-0.5 psi difference of the documented storage with the same callables {c05[k]!r} at p={ps[k]!r}, So={so[k]!r};")
            kro, krg, krw = kr["kro"](so), kr["krg"](so), kr["krw"](so)
            lam_want = rho["rho_o0"] * (f["Rv"](ps) * krg / (f["mu_g"](ps) * f["Bg"](ps)) + kro / (f["mu_o"](ps) * f["Bo"](ps))) + rho["rho_g0"] * (krg / (f["mu_g"](ps) * f["Bg"](ps)) + f["Rs"](ps) * kro / (f["mu_o"](ps) * f["Bo"](ps))) + rho["rho_w0"] * krw / (f["mu_w"](ps) * f["Bw"](ps))
            lam_spl = np.asarray(lib("lambda_combined_func(spline callables)", lambda_combined_func, ps, so, pvt_c, kr), float)
            res.check("C16/mobility-with-the-callers-functions", float(np.max(np.abs(lam_spl - lam_want))), 1e-11 * float(np.max(np.abs(lam_want))) + 1e-300, "spline property functions: lambda_combined_func vs the documented sum with the same callables;")
            res.labels["spline_callables"] = True
    # ---- compressibility ------------------------------------------------------------------------------
    c_lib = np.asarray(lib("compressibility_combined_func", compressibility_combined_func, ps, so, phi, sw, pvt), float)
    if c_lib.shape != ps.shape or not np.all(np.isfinite(c_lib)):
        res.bad("C16/finite", f"compressibility_combined_func returned {c_lib!r}")
        return res

    def dparts(h):
        a = mp.storage_doc(tab, rho, phi, sw, ps + h, so, parts=True)
        b = mp.storage_doc(tab, rho, phi, sw, ps - h, so, parts=True)
        return [(x - y) / (2 * h) for x, y in zip(a, b)]

    d1, d2 = dparts(0.4), dparts(0.2)
    rich = [(4 * y - x) / 3 for x, y in zip(d1, d2)]
    c_ref = sum(rich)
    scale = sum(np.abs(t) for t in rich) + 1e-300
    # truncation error of a plain central difference over +-0.5 psi (the documented stencil) on these tables:
    # admitted in the tolerance, so that any consistent difference quotient with a step <= 0.5 psi passes
    trunc = sum(np.abs(a - b) for a, b in zip(dparts(0.5), rich))
    store = np.abs(np.asarray(mp.storage_doc(tab, rho, phi, sw, ps, so), float)) / np.maximum(ps, 1.0)
    if fam == "constant":
        k = int(np.argmax(np.abs(c_lib)))
        res.check("C16/vanishes-for-pressure-independent-table", float(np.max(np.abs(c_lib) / np.maximum(store, 1e-300))), 1e-9, f"constant-property table: c={c_lib[k]!r} at p={ps[k]!r}, So={so[k]!r} (stored mass / p = {store[k]!r});")
    else:
        off = ~on_node
        if np.any(off):
            err = np.abs(c_lib - c_ref)[off] / (scale[off] + 1.5e5 * trunc[off] + 1e-4 * store[off])
            k = int(np.argmax(err))
            res.check(
                "C16/is-the-pressure-derivative-of-storage",
                float(err[k]),
                1e-5,
                f"p={ps[off][k]!r} So={so[off][k]!r} Sw={sw!r} phi={phi!r}: library c={c_lib[off][k]!r}, finite difference of the documented storage {c_ref[off][k]!r} (sum of |component derivatives| {scale[off][k]!r}, {fam} table);",
            )
        if np.any(on_node):
            # at a node the table kinks: any consistent derivative lies between the one-sided slopes
            left = sum((np.asarray(x) - np.asarray(y)) / 0.4 for x, y in zip(mp.storage_doc(tab, rho, phi, sw, ps - 0.1, so, parts=True), mp.storage_doc(tab, rho, phi, sw, ps - 0.5, so, parts=True)))
            right = sum((np.asarray(x) - np.asarray(y)) / 0.4 for x, y in zip(mp.storage_doc(tab, rho, phi, sw, ps + 0.5, so, parts=True), mp.storage_doc(tab, rho, phi, sw, ps + 0.1, so, parts=True)))
            lo_s, hi_s = np.minimum(left, right), np.maximum(left, right)
            slack = 1e-4 * scale + 0.1 * (hi_s - lo_s) + 1e-9 * store
            bad = on_node & ((c_lib < lo_s - slack) | (c_lib > hi_s + slack))
            if np.any(bad):
                k = int(np.flatnonzero(bad)[0])
                res.bad("C16/is-the-pressure-derivative-of-storage", f"on the node p={ps[k]!r}: library c={c_lib[k]!r} outside the one-sided derivatives of the documented storage [{lo_s[k]!r}, {hi_s[k]!r}]")
    # the water saturation may be given as a scalar or per cell (signature: float | ndarray); pressure / saturation
    # per cell or one at a time: same numbers
    c_sw_arr = np.asarray(lib("compressibility_combined_func(Sw array)", compressibility_combined_func, ps, so, phi, np.full(len(ps), sw), pvt), float)
    if c_sw_arr.shape != c_lib.shape or not np.allclose(c_sw_arr, c_lib, rtol=1e-13, atol=0):
        res.bad("C16/same-result-for-scalar-and-array-arguments", f"Sw given as an array of the same value changes c: {c_sw_arr[:3]} vs {c_lib[:3]}")
    c_one = np.array([float(compressibility_combined_func(float(q), float(s_), phi, sw, pvt)) for q, s_ in zip(ps[:4], so[:4])])
    if not np.allclose(c_one, c_lib[:4], rtol=1e-13, atol=0):
        res.bad("C16/same-result-for-scalar-and-array-arguments", f"cell-by-cell scalar calls give {c_one} but the array call {c_lib[:4]}")
    # ... and whatever scalar type carries the pressure (whole-number pressures as Python / numpy ints, 0-d arrays)
    form = case.get("p_form", "np.float64")
    for q, s_ in list(zip(ps, so))[:2]:
        qq = forms.representable(float(q), form)
        if not (p_nodes[0] + 1.0 <= qq <= p_nodes[-1] - 1.0):
            continue
        try:
            c_f = float(compressibility_combined_func(forms.scalar(qq, form), float(s_), phi, sw, pvt))
            l_f = float(lambda_combined_func(forms.scalar(qq, form), float(s_), pvt, kr))
        except Exception as e:  # noqa: BLE001
            res.bad("C16/same-result-for-scalar-and-array-arguments", f"pressure {qq!r} given as {form}: {type(e).__name__}: {e}")
            break
        c_p = float(compressibility_combined_func(float(qq), float(s_), phi, sw, pvt))
        l_p = float(lambda_combined_func(float(qq), float(s_), pvt, kr))
        if not (abs(c_f - c_p) <= 1e-12 * abs(c_p) + 1e-300 and abs(l_f - l_p) <= 1e-12 * abs(l_p) + 1e-300):
            res.bad("C16/same-result-for-scalar-and-array-arguments", f"pressure {qq!r} given as {form}: c={c_f!r}, lambda={l_f!r}; as a Python float: c={c_p!r}, lambda={l_p!r}")
            break
        res.labels["scalar_pressure_forms"] = "checked"
    # proportional to porosity (dyadic factor: exact)
    f = 2.0 ** case["phi_factor_exp"]
    c2 = np.asarray(lib("compressibility_combined_func(phi scaled)", compressibility_combined_func, ps, so, phi * f, sw, pvt), float)
    if not np.array_equal(c2, c_lib * f):
        k = int(np.argmax(np.abs(c2 - c_lib * f)))
        res.check("C16/proportional-to-porosity", float(abs(c2[k] - c_lib[k] * f)), 1e-13 * float(np.max(scale)) * f + 1e-300, f"porosity x{f!r}: c goes from {c_lib[k]!r} to {c2[k]!r};")
    # ---- mobility --------------------------------------------------------------------------------------
    lam_lib = np.asarray(lib("lambda_combined_func", lambda_combined_func, ps, so, pvt, kr), float)
    lam_ref = mp.mobility_doc(tab, mp.kr_lookup(kr_table), rho, ps, so)
    res.check("C16/mobility-is-documented-sum", float(np.max(np.abs(lam_lib - lam_ref) / np.maximum(np.abs(lam_ref), 1e-300))) if np.any(lam_ref != 0) else float(np.max(np.abs(lam_lib))), 1e-12, f"lambda_combined_func vs documented mobility at p={list(ps)[:3]} So={list(so)[:3]};")
    # ---- diffusivity = mobility / compressibility ----------------------------------------------------------
    ok = (np.abs(c_lib) > 1e-6 * store) & np.isfinite(lam_lib)
    if fam != "constant" and np.any(ok):
        a_lib = np.asarray(lib("alpha_multiphase", alpha_multiphase, ps[ok], so[ok], phi, sw, pvt, kr), float)
        want = lam_lib[ok] / c_lib[ok]
        res.check("C16/diffusivity-is-mobility-over-compressibility", float(np.max(np.abs(a_lib - want) / np.maximum(np.abs(want), 1e-300))), 1e-12, "alpha_multiphase vs lambda / c;")
    res.nontrivial = bool(fam == "constant" or np.any(~on_node))
    res.labels["mobile_water"] = bool(sw > case["relperm"]["S_wc"])
    res.labels["with_rv"] = bool(np.any(tab["Rv"] != 0))
    # ---- the table built by from_table carries mobility / compressibility of the documented formulas --------
    if sw <= case["relperm"]["S_wc"] and fam != "constant":
        n = len(p_nodes)
        st_hi = mp.storage_doc(tab, rho, phi, sw, p_nodes + 0.5, tab["So"])
        st_lo = mp.storage_doc(tab, rho, phi, sw, p_nodes - 0.5, tab["So"])
        lam_nodes = mp.mobility_doc(tab, mp.kr_lookup(kr_table), rho, p_nodes, tab["So"])
        m_end = float(np.sum(0.5 * (lam_nodes[1:] + lam_nodes[:-1]) * np.diff(p_nodes)))
        if np.all(st_hi - st_lo > 0) and lam_nodes[1] > 0 and lam_nodes[0] > 0 and m_end > 0:
            import warnings

            with warnings.catch_warnings():
                warnings.simplefilter("ignore")
                # the rel-perm table's rows in decreasing oil saturation for every other case (row order carries no meaning)
                kr_in = dict(kr_table)
                if len(case["points"]) % 2 == 0:
                    kr_in = {k: np.asarray(v)[::-1].copy() for k, v in kr_table.items()}
                    res.labels["kr_rows"] = "descending-So"
                # the water saturation handed to from_table is the one the storage uses; exactly 0.0 (no connate water)
                # is a legitimate value whatever water saturation the rel-perm table was measured at
                sw_call = 0.0 if len(case["points"]) % 3 == 0 else sw
                res.labels["from_table_Sw"] = "0.0" if sw_call == 0.0 else "as the kr table"
                fp = lib("FlowPropertiesTwoPhase.from_table", FlowPropertiesTwoPhase.from_table, dict(tab), kr_in, dict(rho), phi, sw_call, float(p_nodes[-1]))
            al = np.asarray(fp.pvt_props["alpha"], float)
            c_nodes = np.asarray(compressibility_combined_func(p_nodes, tab["So"], phi, sw_call, pvt), float)
            if not np.all(c_nodes > 0):
                return res
            want = lam_nodes / c_nodes
            res.check("C16/tabulated-diffusivity", float(np.max(np.abs(al - want) / np.maximum(np.abs(want), 1e-300))), 1e-10, "alpha column of from_table vs documented mobility / library compressibility at the nodes;")
            res.labels["from_table"] = "checked"
    return res
