"""C17 - Simulation is invariant to time-origin shifts and equivalent schedule forms."""

from __future__ import annotations

import numpy as np
from hypothesis import strategies as st

from vf import flowcase, grids, tables
from vf.core import LibRaised, Result, lib

ID = "C17"
TITLE = "Simulation is invariant to time-origin shifts and equivalent schedule forms"
LEVEL = "exploration"
BUDGET = {"quick": 3200, "thorough": 400000}
SHRINK = {"quick": False, "thorough": True}
RULE = (
    "Pairs of runs on one generated configuration (table, pressure pair, nx 3..60, reservoir class). 'dyadic': "
    "times are integer multiples of 2^-q (q 0..30, increments 1..2^12 units, 2..80 steps) and the shift is an "
    "integer multiple of the same unit, so shifted increments are bit-identical and so must be the field and "
    "both recoveries; 'real': arbitrary shift in [-1e7, 1e7] on a generated grid, compared within a tolerance "
    "derived from the actual perturbation of the increments; 'constant-schedule' vs scalar setting (bit-identical); "
    "'bad-length' schedules (every length != len(time), including 0, len-1, len+1, 2 len); 'before-simulate' "
    "calls; interpolator laws on strictly increasing grids. Non-trivial = a shift != 0 with >= 3 distinct "
    "increments, or any of the other kinds. Distinct = hash of the case record."
    " After a rejected first simulate the object must still raise on recovery calls; one case in nine runs on copied / pickled objects."
)
ASSUMPTIONS = [
    "'rejected' / 'raises an error' accept any exception type",
    "real shifts: tolerance 1e-9 |m_i| + d (1e-6 + 2 sum_i |dt'_i - dt_i| / dt_i) on the field and the same relative bound on recoveries, where dt' are the increments of the shifted grid as represented in floating point",
    "interpolator: value at a simulated time equals recovery there to 1e-13 relative (+1e-300)",
]
LEVEL_TEXT = (
    "Metamorphic relations between pairs of runs (time shift, schedule form) with exact equality where the "
    "arithmetic is provably identical, plus rejection and interpolator-boundary checks. Exploration."
)


@st.composite
def base_config(draw):
    c = draw(flowcase.sim_case(nx_max=60, max_steps=80, schedules=False, time_kinds=("uniform", "quadratic", "geometric", "random", "intdays")))
    return c


@st.composite
def strategy_(draw):
    c = draw(base_config())
    kind = draw(st.sampled_from(["dyadic", "dyadic", "real", "constant-schedule", "bad-length", "before-simulate", "interpolator"]))
    c["kind"] = kind
    if kind == "dyadic":
        q = draw(st.integers(0, 30))
        n = draw(st.integers(2, 80))
        incs = [draw(st.integers(1, 4096)) for _ in range(n)]
        start = draw(st.integers(0, 4096))
        # shifts up to 2^44 units: thousands to billions of times the span of the grid (calendar time in seconds since
        # an epoch, Julian days); all sums stay exactly representable (< 2^53 units)
        shift = draw(st.one_of(st.integers(1, 2**20), st.integers(-(2**20), -1), st.integers(2**20, 2**44), st.integers(-(2**44), -(2**20))))
        unit = 2.0**-q
        t = np.concatenate([[start], start + np.cumsum(incs)]).astype(float) * unit
        c["time"] = {"kind": "steps", "steps": [float(x) for x in np.diff(t)], "start": float(t[0]), "label": "dyadic"}
        c["shift"] = float(shift * unit)
    elif kind == "real":
        c["shift"] = draw(st.one_of(st.floats(-1e3, 1e3), st.floats(-1.0, 1.0), st.floats(1e3, 1e7), st.floats(-1e7, -1e3)))
    elif kind == "bad-length":
        c["len_mode"] = draw(st.sampled_from(["zero", "minus1", "plus1", "double", "one", "random"]))
        c["len_frac"] = draw(st.floats(0.0, 3.0))
    elif kind == "interpolator":
        c["queries"] = [draw(st.floats(-2.0, 3.0)) for _ in range(6)]
        # time origins other than 0, negative ones included ("before the first time" is then not "t < 0")
        if c["time"]["kind"] == "intdays":
            c["time"]["start"] = draw(st.sampled_from([0, 5, -7, -400]))
        else:
            c["time"]["start"] = draw(st.sampled_from([0.0, c["time"].get("start", 0.0), -3.0, -1000.0, 250.0]))
        c["mode"] = draw(st.sampled_from(["flux", "flux", "density"]))
    if kind in ("bad-length", "constant-schedule"):
        # the schedule is documented as an Iterable of floats: array, list, tuple and pandas Series are all handed over
        c["sched_container"] = draw(st.sampled_from(["array", "array", "list", "tuple", "series", "series-offset-index"]))
    return c


def strategy(tier):
    return strategy_()


def _as_container(sched, how):
    if how == "list":
        return [float(v) for v in sched]
    if how == "tuple":
        return tuple(float(v) for v in sched)
    if how == "series":
        import pandas as pd

        return pd.Series(sched)
    if how == "series-offset-index":
        import pandas as pd

        return pd.Series(sched, index=np.arange(len(sched)) + 100)
    return sched


def _simulate(r, time, sched=None):
    if sched is None:
        lib("simulate", r.res.simulate, time)
    else:
        lib("simulate(schedule)", r.res.simulate, time, sched)
    return np.asarray(r.res.pseudopressure, float)


def check_case(case) -> Result:
    res = Result()
    kind = case["kind"]
    res.labels["kind"] = kind
    res.labels["cls"] = case["cls"]
    single = case["cls"] != "ideal"
    time = grids.build_time(case["time"])
    dts = np.diff(time)

    if kind == "before-simulate":
        r = flowcase.run(case, simulate=False)
        for name, call in (
            ("recovery_factor()", lambda: r.res.recovery_factor()),
            ("recovery_factor(density=True)", lambda: r.res.recovery_factor(density=True)),
            ("recovery_factor_interpolator()", lambda: r.res.recovery_factor_interpolator()),
        ):
            if not single and "density" in name:
                continue  # the ideal reservoir has no fluid table to take a density from
            try:
                call()
            except Exception:  # noqa: BLE001
                continue
            res.bad("C17/error-before-simulate", f"{name} returned normally on a {type(r.res).__name__} that was never simulated")
        res.nontrivial = True
        return res

    if kind == "bad-length":
        if not single:
            res.skipped = "the ideal reservoir takes no schedule"
            return res
        r = flowcase.run(case, simulate=False)
        nt = len(time)
        n_bad = {"zero": 0, "minus1": nt - 1, "plus1": nt + 1, "double": 2 * nt, "one": 1}.get(case["len_mode"], int(case["len_frac"] * nt))
        if n_bad == nt:
            n_bad = nt + 2
        sched = _as_container(np.full(n_bad, r.p_f), case.get("sched_container", "array"))
        res.labels["sched_container"] = case.get("sched_container", "array")
        try:
            r.res.simulate(time, sched)
        except Exception:  # noqa: BLE001
            res.nontrivial = True
            res.labels["bad_len"] = case["len_mode"]
            # the rejected call was the object's first: no simulation has taken place, so recovery must still raise
            for name, call in (("recovery_factor", lambda: r.res.recovery_factor()), ("recovery_factor_interpolator", lambda: r.res.recovery_factor_interpolator())):
                try:
                    out = call()
                except Exception:  # noqa: BLE001
                    continue
                res.bad("C17/recovery-before-simulate-raises", f"{name}() returned {type(out).__name__} on an object whose only simulate call was rejected (schedule of length {n_bad} for {nt} times)")
                break
            return res
        res.bad("C17/schedule-length-rejected", f"simulate accepted a schedule of length {n_bad} for {nt} times")
        return res

    # ---- the reference run ---------------------------------------------------------------------------
    r = flowcase.run(case)
    if not flowcase.sound_field(r.res, r, res):
        return res
    m1 = r.m.copy()
    rf1 = np.asarray(lib("recovery_factor", r.res.recovery_factor), float).copy()
    rfd1 = np.asarray(lib("recovery_factor(density)", r.res.recovery_factor, density=True), float).copy() if single else None
    tol_f = r.tol()

    if kind in ("dyadic", "real"):
        t2 = time + case["shift"]
        dt2 = np.diff(t2)
        exact = bool(np.array_equal(dt2, dts))
        if kind == "dyadic" and not exact:
            res.skipped = "shifted increments not bit-identical (harness construction error)"
            return res
        r2 = flowcase.run(case, simulate=False)
        m2 = _simulate(r2, t2)
        rf2 = np.asarray(lib("recovery_factor", r2.res.recovery_factor), float)
        rfd2 = np.asarray(lib("recovery_factor(density)", r2.res.recovery_factor, density=True), float) if single else None
        if m2.shape != m1.shape:
            res.bad("C17/shift-invariant-field", f"field shape changes under a time shift: {m1.shape} vs {m2.shape}")
            return res
        if exact:
            if not np.array_equal(m1, m2):
                n, j = np.argwhere(m1 != m2)[0]
                res.bad("C17/shift-invariant-field", f"shift {case['shift']!r} with bit-identical increments changes m[{n},{j}] from {m1[n, j]!r} to {m2[n, j]!r}")
            if not np.array_equal(rf1, rf2):
                k = int(np.argmax(rf1 != rf2))
                res.bad("C17/shift-invariant-recovery", f"shift {case['shift']!r} with bit-identical increments changes recovery[{k}] from {rf1[k]!r} to {rf2[k]!r}")
            if single and not np.array_equal(rfd1, rfd2):
                k = int(np.argmax(rfd1 != rfd2))
                res.bad("C17/shift-invariant-recovery", f"shift {case['shift']!r} changes in-place recovery[{k}] from {rfd1[k]!r} to {rfd2[k]!r}")
        else:
            pos = dts > 0
            pert = float(np.sum(np.abs(dt2[pos] - dts[pos]) / dts[pos])) + (0.0 if np.all(pos) else float(np.sum(np.abs(dt2[~pos])) * r.inv_h2))
            tol = 1e-9 * abs(r.m_i) + r.d * (1e-6 + 2 * pert)
            res.check("C17/shift-invariant-field", float(np.max(np.abs(m1 - m2))), tol, f"shift {case['shift']!r}: field changes (relative increment perturbation {pert!r});")
            scale = max(float(np.max(np.abs(rf1))), 1e-300)
            # the flux stencil's rounding (three nearly equal values, ~ eps |m| nx) is integrated over the whole run
            round_flux = 1024 * np.finfo(float).eps * abs(r.m_i) * r.case["nx"] * float(time[-1] - time[0])
            res.check("C17/shift-invariant-recovery", float(np.max(np.abs(rf1 - rf2))), scale * (1e-6 + 4 * pert) + 1e-12 + round_flux, f"shift {case['shift']!r}: flux recovery changes;")
            if single:
                scale = max(float(np.max(np.abs(rfd1))), 1e-300)
                res.check("C17/shift-invariant-recovery", float(np.max(np.abs(rfd1 - rfd2))), scale * (1e-6 + 4 * pert) + 1e-9, f"shift {case['shift']!r}: in-place recovery changes;")
        # the same object simulated again after the caller shifted ITS OWN time array in place (t += shift; the object
        # may hold a reference to that array): identical to the fresh object's run on the shifted grid
        if np.issubdtype(np.asarray(time).dtype, np.floating):
            r3 = flowcase.run(case, simulate=False)
            t_buf = np.array(time, float, copy=True)
            _simulate(r3, t_buf)
            t_buf += case["shift"]
            m3 = _simulate(r3, t_buf)
            rf3 = np.asarray(lib("recovery_factor", r3.res.recovery_factor), float)
            if m3.shape != m2.shape or not (np.array_equal(m3, m2) and np.array_equal(rf3, rf2)):
                res.bad("C17/shift-invariant-field", f"re-simulating one object after its caller's time array was shifted in place by {case['shift']!r} does not give the result of a fresh object on the shifted grid (max field difference {float(np.max(np.abs(m3 - m2))) if m3.shape == m2.shape else 'shape'})")
        distinct = len(np.unique(dts))
        res.nontrivial = bool(case["shift"] != 0 and distinct >= 3)
        res.labels["exact_increments"] = exact
        return res

    if kind == "constant-schedule":
        if not single:
            res.skipped = "the ideal reservoir takes no schedule"
            return res
        r2 = flowcase.run(case, simulate=False)
        res.labels["sched_container"] = case.get("sched_container", "array")
        m2 = _simulate(r2, time, _as_container(np.full(len(time), r.p_f), case.get("sched_container", "array")))
        if not np.array_equal(m1, m2):
            n, j = np.argwhere(m1 != m2)[0]
            res.bad("C17/constant-schedule-equals-scalar", f"constant schedule p_f={r.p_f!r}: m[{n},{j}]={m2[n, j]!r} vs scalar setting {m1[n, j]!r}")
        rf2 = np.asarray(lib("recovery_factor", r2.res.recovery_factor), float)
        rfd2 = np.asarray(lib("recovery_factor(density)", r2.res.recovery_factor, density=True), float)
        # ... also when the constant schedule is the caller's own array, first used with varying values and then
        # overwritten in place (sched[:] = p_f) before the second simulate on the same object
        r4 = flowcase.run(case, simulate=False)
        sched_buf = np.linspace(r.p_f, 0.5 * (r.p_f + r.p_i), len(time))
        _simulate(r4, time, sched_buf)
        sched_buf[:] = r.p_f
        m4 = _simulate(r4, time, sched_buf)
        if not np.array_equal(m1, m4):
            res.bad("C17/constant-schedule-equals-scalar", f"a schedule array overwritten in place with the constant p_f={r.p_f!r} and simulated again on the same object does not give the scalar setting's field (max difference {float(np.max(np.abs(m1 - m4)))!r})")
        if not (np.array_equal(rf1, rf2) and np.array_equal(rfd1, rfd2)):
            res.bad("C17/constant-schedule-equals-scalar", "recovery differs between a constant schedule and the scalar setting")
        res.nontrivial = True
        return res

    # ---- interpolator laws -----------------------------------------------------------------------------
    if not np.all(dts > 0):
        res.skipped = "time grid not strictly increasing (interpolator undefined)"
        return res
    rf = np.asarray(lib("recovery_factor", r.res.recovery_factor), float)
    # the optional `time` argument ("times to calculate recovery factor at") given the simulated times: same result
    rf_t = np.asarray(lib("recovery_factor(time)", r.res.recovery_factor, time), float)
    if rf_t.shape != rf.shape or not np.array_equal(rf_t, rf):
        res.bad("C17/interpolator-reproduces-recovery", "recovery_factor(time=<the simulated times>) differs from recovery_factor()")
    res.labels["interp_mode"] = "flux"
    if case.get("mode") == "density" and single:
        # the interpolator describes the recovery most recently asked for: here the in-place (density) recovery
        rf = np.asarray(lib("recovery_factor(density)", r.res.recovery_factor, density=True), float).copy()
        res.labels["interp_mode"] = "density"
    res.labels["t0"] = "0" if time[0] == 0 else ("<0" if time[0] < 0 else ">0")
    f = lib("recovery_factor_interpolator", r.res.recovery_factor_interpolator)
    at = np.asarray(f(time), float)
    res.check("C17/interpolator-reproduces-recovery", float(np.max(np.abs(at - rf))), 1e-13 * max(float(np.max(np.abs(rf))), 1e-300) + 1e-300, "interpolator at the simulated times vs recovery;")
    span = time[-1] - time[0]
    before = [time[0] - abs(q) * span - 1e-9 * max(abs(time[0]), 1.0) - 1e-300 for q in case["queries"]] + [np.nextafter(time[0], -np.inf), -1e300]
    after = [time[-1] + abs(q) * span + 1e-9 * max(abs(time[-1]), 1.0) for q in case["queries"]] + [np.nextafter(time[-1], np.inf), 1e300]
    vb = np.asarray(f(np.array(before)), float)
    va = np.asarray(f(np.array(after)), float)
    if np.any(vb != 0):
        res.bad("C17/interpolator-zero-before-first-time", f"interpolator returns {vb[np.flatnonzero(vb != 0)[0]]!r} before the first simulated time")
    if np.any(va != rf[-1]):
        res.bad("C17/interpolator-final-after-last-time", f"interpolator returns {va[np.flatnonzero(va != rf[-1])[0]]!r} after the last time, final recovery is {rf[-1]!r}")
    mids = 0.5 * (time[1:] + time[:-1])
    vm = np.asarray(f(mids), float)
    lo, hi = np.minimum(rf[1:], rf[:-1]), np.maximum(rf[1:], rf[:-1])
    slack = 1e-12 * max(float(np.max(np.abs(rf))), 1e-300)
    if np.any(vm < lo - slack) or np.any(vm > hi + slack):
        res.bad("C17/interpolator-reproduces-recovery", "interpolator between two simulated times is outside the recoveries at those times")
    res.nontrivial = True
    return res
