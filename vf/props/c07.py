"""C07 - Density, formation volume factor and compressibility are mutually consistent."""

from __future__ import annotations

import math

import numpy as np
from hypothesis import strategies as st

from vf import forms, gens, refs
from vf.core import Result, history_independent, lib

ID = "C07"
TITLE = "Density, formation volume factor and compressibility are mutually consistent"
LEVEL = "exploration"
BUDGET = {"quick": 8000, "thorough": 1200000}
SHRINK = {"quick": True, "thorough": True}
RULE = (
    "Hypothesis draws a gas state on the Z-factor rectangle (as C06; one case in ten towards zero pressure, p_r 1e-10..1e-4) with gas gravity 0.55..1.2 and a second "
    "pressure, an oil (as C12) with pressures on both sides of the bubble point (scalar and array calls), and a "
    "brine state (T 60..400 F, p 15..15000 psia, salinity 0..25 wt%). Non-trivial = gas reduced pressure > 0.5 "
    "and the oil pressures straddle the bubble point. Distinct = hash of the case record."
)
ASSUMPTIONS = [
    "gas constant 10.73159 psia ft3/(lbmol R), air molecular weight 28.964, 5.615 ft3/bbl (the constants the library documents); standard conditions are the caller's (b_factor_DAK's temperature_standard / pressure_standard arguments, positional or keyword) or the documented defaults 60 F / 14.70 psia",
    "gas compressibility is compared with a Richardson-extrapolated central difference of ln(library density) (relative 2e-6)",
    "stock-tank oil mass 62.37*gamma_o + 0.0136*gamma_g*Rs lb/ft3 of stock-tank oil (Standing), brine 62.368 + 0.438603 S + 1.60074e-3 S^2",
    "'viscosity increases with pressure' is asserted for pressure ratios >= 1.001 with a 1e-12 relative tolerance",
]
LEVEL_TEXT = (
    "Algebraic identities between independently coded correlations (density, FVF, compressibility, viscosity) "
    "checked at generated state points; the known compressibility/Z inconsistency (first DAK coefficient) is "
    "recognised by a mechanism classifier, any other deviation is reported. Exploration."
)

MW_AIR = 28.964
R_GAS = 10.73159


@st.composite
def strategy_(draw):
    g = draw(gens.gas_state())
    if draw(st.integers(0, 9)) == 0:
        # towards zero pressure (the correlations' range has no lower pressure limit: Z -> 1, c_g -> 1/p)
        g = dict(g, p=draw(gens.loguniform(1e-10, 1e-4)) * g["ppc"])
    oil = draw(gens.oil_params())
    return {
        "gas": {
            "T": g["T"],
            "p": g["p"],
            "tpc": g["tpc"],
            "ppc": g["ppc"],
            "sg": draw(st.floats(0.55, 1.2)),
            "ratio": draw(st.floats(1.001, 3.0)),
            # Bg is referred to the caller's standard conditions: the documented defaults (None) or another common base
            "t_std": draw(st.sampled_from([None, None, 60.0, 59.0, 68.0, 32.0])),
            "p_std": draw(st.sampled_from([None, None, 14.7, 14.65, 14.696, 14.73, 15.025])),
            "std_as_kw": draw(st.booleans()),
            # the form in which temperature and pressure are handed over (Python / numpy scalars, 0-d arrays)
            "T_form": draw(forms.scalar_form()),
            "p_form": draw(forms.scalar_form()),
        },
        "oil": oil,
        "oil_fracs": [draw(st.floats(0.0, 1.0)) for _ in range(draw(st.integers(1, 6)))],
        "water": {
            "T": draw(st.floats(60.0, 400.0)),
            "p": draw(st.floats(15.0, 15000.0)),
            "S": draw(st.one_of(st.just(0.0), st.floats(0.0, 25.0))),
            "p_form": draw(forms.scalar_form()),
            "S_form": draw(forms.scalar_form()),
        },
    }


def strategy(tier):
    return strategy_()


def _gas_consistency(g):
    """(library c_g, numerical d ln rho / dp, variant-EOS c_g, published-formula c_g at the library's Z)."""
    from bluebonnet.fluids import gas as G

    T, p, tpc, ppc, sg = g["T"], g["p"], g["tpc"], g["ppc"], g["sg"]
    tr, pr = (T + 459.67) / (tpc + 459.67), p / ppc
    lnrho = lambda q: math.log(float(G.density_DAK(T, q, tpc, ppc, sg)))  # noqa: E731
    h = 2e-3 * p
    d1 = (lnrho(p + h) - lnrho(p - h)) / (2 * h)
    d2 = (lnrho(p + h / 2) - lnrho(p - h / 2)) / h
    num = (4 * d2 - d1) / 3
    z = float(G.z_factor_DAK(T, p, tpc, ppc))
    c_var = refs.dak_cg_reduced(z, tr, pr, variant=True) / ppc
    c_pub_at_libz = refs.dak_cg_reduced(z, tr, pr, variant=False) / ppc
    c_lib = float(G.compressibility_DAK(T, p, tpc, ppc))
    return c_lib, num, c_var, c_pub_at_libz


def known_match(case, v):
    """F5 seen from C07: compressibility_DAK differentiates the published EOS, Z solves the A1*A2/T_r variant.

    Accepted only if (a) the library's c_g is the published dZ/drho formula evaluated at the library's own Z and
    (b) the library's density is self-consistent with the variant EOS (numerical d ln rho/dp equals the
    compressibility derived from the variant).  Anything else is a new violation."""
    if v.oracle != "C07/gas-compressibility-is-dlnrho-dp":
        return None
    try:
        c_lib, num, c_var, c_pub = _gas_consistency(case["gas"])
    except Exception:  # noqa: BLE001
        return None
    a = abs(c_lib - c_pub) <= 1e-9 * abs(c_pub)
    b = abs(num - c_var) <= 2e-6 * abs(c_var)
    return "dak-first-coefficient" if (a and b) else None


def check_case(case) -> Result:
    from bluebonnet.fluids import gas as G
    from bluebonnet.fluids import oil as O
    from bluebonnet.fluids import water as W

    res = Result()
    # ------------------------------------------------------------------ gas
    g = dict(case["gas"])
    tf, pf = g.get("T_form", "float"), g.get("p_form", "float")
    Tq, pq = forms.representable(g["T"], tf), forms.representable(g["p"], pf)
    if not (pq > 0 and 1.05 <= (Tq + 459.67) / (g["tpc"] + 459.67) <= 3.0 and pq / g["ppc"] <= 30.0):
        tf = pf = "float"
    else:
        g["T"], g["p"] = Tq, pq
    res.labels["gas_scalar_forms"] = "float" if (tf, pf) == ("float", "float") else "other"
    frel = max(forms.rel(tf, 1e-12, 1e-5), forms.rel(pf, 1e-12, 1e-5))
    T, p, tpc, ppc, sg = g["T"], g["p"], g["tpc"], g["ppc"], g["sg"]
    Tg, pg = forms.scalar(T, tf), forms.scalar(p, pf)  # what the library is given
    tr, pr = (T + 459.67) / (tpc + 459.67), p / ppc
    p2 = min(p * g["ratio"], 30.0 * ppc)
    z = float(lib("z_factor_DAK", G.z_factor_DAK, Tg, pg, tpc, ppc))
    rho = float(lib("density_DAK", G.density_DAK, Tg, pg, tpc, ppc, sg))
    t_std, p_std = g.get("t_std"), g.get("p_std")
    std_kw = {}
    std_pos = ()
    if t_std is not None or p_std is not None:
        t_std = 60.0 if t_std is None else t_std
        p_std = 14.70 if p_std is None else p_std
        if g.get("std_as_kw", True):
            std_kw = {"temperature_standard": t_std, "pressure_standard": p_std}
        else:
            std_pos = (t_std, p_std)
    else:
        t_std, p_std = 60.0, 14.70
    res.labels["std_conditions"] = "default" if not (std_kw or std_pos) else ("keyword" if std_kw else "positional")
    bg = float(lib("b_factor_DAK", G.b_factor_DAK, Tg, pg, tpc, ppc, *std_pos, **std_kw))
    want = p * MW_AIR * sg / (z * R_GAS * (T + 459.67))
    res.check("C07/gas-density-real-gas-law", abs(rho - want), frel * abs(want), f"density_DAK={rho!r} pM/(ZRT)={want!r} (Z={z!r}) at T_r={tr!r} p_r={pr!r};")
    const = MW_AIR * sg * p_std / (R_GAS * (t_std + 459.67) * 5.615)
    res.check("C07/gas-density-times-Bg", abs(rho * bg - const), frel * const, f"rho*Bg={rho * bg!r} expected standard-condition mass {const!r} at p={p!r};")
    if p2 > p * 1.0005:
        rho2 = float(lib("density_DAK", G.density_DAK, T, p2, tpc, ppc, sg))
        bg2 = float(lib("b_factor_DAK", G.b_factor_DAK, T, p2, tpc, ppc, *std_pos, **std_kw))
        res.check("C07/gas-density-times-Bg", abs(rho2 * bg2 - rho * bg), frel * const, f"rho*Bg differs between p={p!r} ({rho * bg!r}) and p={p2!r} ({rho2 * bg2!r});")
        mu1 = float(lib("viscosity_Sutton", G.viscosity_Sutton, Tg, pg, tpc, ppc, sg))
        mu2 = float(lib("viscosity_Sutton", G.viscosity_Sutton, T, p2, tpc, ppc, sg))
        if not (mu1 > 0 and mu2 > 0 and math.isfinite(mu1) and math.isfinite(mu2)):
            res.bad("C07/gas-viscosity-positive", f"viscosity {mu1!r}, {mu2!r} at p={p!r}, {p2!r} T_r={tr!r}")
        else:
            res.check("C07/gas-viscosity-increases", max(0.0, mu1 - mu2), frel * mu1, f"mu({p!r})={mu1!r} > mu({p2!r})={mu2!r} at T_r={tr!r} sg={sg!r};")
    # each correlation is a function of its arguments only (no state carried between calls)
    for name, fn, args, others in (
        ("density_DAK", G.density_DAK, (T, p, tpc, ppc, sg), [(T, p, tpc, ppc, sg * 1.1), (T * (1 + 2e-6) + 1e-3, p, tpc, ppc, sg), (T, 0.5 * p, tpc, ppc, sg)]),
        ("viscosity_Sutton", G.viscosity_Sutton, (T, p, tpc, ppc, sg), [(T, p, tpc, ppc, sg * 1.1), (T, 0.5 * p, tpc, ppc, sg * 0.9), (T + 1e-3, p, tpc, ppc, sg)]),
        ("compressibility_DAK", G.compressibility_DAK, (T, p, tpc, ppc), [(T + 1e-3, p, tpc, ppc), (T, p, tpc, ppc * 1.0001), (T, 0.5 * p, tpc, ppc)]),
        ("b_factor_DAK", G.b_factor_DAK, (T, p, tpc, ppc), [(T, p, tpc, ppc, 59.0, 14.65), (T + 1e-3, p, tpc, ppc)]),
    ):
        lib(name, history_independent, res, "C07/independent-of-call-history", fn, args, others, name, 1e-10)
    c_lib, num, _c_var, _c_pub = lib("gas compressibility / density", _gas_consistency, g)
    if (tf, pf) != ("float", "float"):
        c_form = float(lib(f"compressibility_DAK(T as {tf}, p as {pf})", G.compressibility_DAK, Tg, pg, tpc, ppc))
        res.check("C07/scalar-form-irrelevant", abs(c_form - c_lib), max(frel, 1e-11) * abs(c_lib), f"compressibility_DAK(T={T!r} as {tf}, p={p!r} as {pf})={c_form!r} vs the same values as Python floats {c_lib!r};")
    res.check(
        "C07/gas-compressibility-is-dlnrho-dp",
        abs(c_lib - num),
        2e-6 * abs(num),
        f"compressibility_DAK={c_lib!r} but d ln(density_DAK)/dp={num!r} at T_r={tr!r} p_r={pr!r};",
    )
    # ------------------------------------------------------------------ oil
    o = case["oil"]
    To, api, sgo, gor = gens.oil_tuple(o)
    pb = float(lib("pressure_bubblepoint_Standing", O.pressure_bubblepoint_Standing, To, api, sgo, gor))
    straddle = False
    if math.isfinite(pb) and pb > 50:
        ps = sorted({15.0 + f * (2.5 * pb - 15.0) for f in case["oil_fracs"]} | {0.6 * pb, pb, 1.7 * pb})
        straddle = True
        gamma_o = 141.5 / (131.5 + api)
        arr = np.array(ps)
        # the pressures are handed over in ascending order, as a depletion path or in no particular order
        k_ = len(arr)
        perm = {0: np.arange(k_), 1: np.arange(k_)[::-1], 2: np.concatenate([np.arange(1, k_, 2), np.arange(0, k_, 2)[::-1]])}[len(case["oil_fracs"]) % 3]
        inv = np.argsort(perm)
        res.labels["oil_array_order"] = ("ascending", "descending", "unordered")[len(case["oil_fracs"]) % 3]
        rho_arr = np.asarray(lib("density_Standing(array)", O.density_Standing, To, arr[perm].copy(), api, sgo, gor), float)
        bo_arr = np.asarray(lib("b_o_Standing(array)", O.b_o_Standing, To, arr[perm].copy(), api, sgo, gor), float)
        if rho_arr.shape == arr.shape and bo_arr.shape == arr.shape:
            rho_arr, bo_arr = rho_arr[inv], bo_arr[inv]
        lib("density_Standing", history_independent, res, "C07/independent-of-call-history", O.density_Standing, (To, float(ps[0]), api, sgo, gor), [(To, float(ps[0]), api, sgo, gor * 1.5), (To + 1e-3, float(ps[-1]), api + 1, sgo, gor)], "density_Standing")
        for k, q in enumerate(ps):
            rs = float(lib("solution_gor_Standing", O.solution_gor_Standing, To, q, api, sgo, gor))
            bo = float(lib("b_o_Standing", O.b_o_Standing, To, q, api, sgo, gor))
            ro = float(lib("density_Standing", O.density_Standing, To, q, api, sgo, gor))
            mass = 62.37 * gamma_o + 0.0136 * sgo * rs
            res.check("C07/oil-density-times-Bo", abs(ro * bo - mass), 1e-12 * mass, f"rho_o*Bo={ro * bo!r} stock-tank oil + dissolved gas={mass!r} at p={q!r} p_b={pb!r} oil={o};")
            res.check("C07/oil-density-times-Bo", abs(rho_arr[k] * bo_arr[k] - mass), 1e-11 * mass, f"(array call) rho_o*Bo={rho_arr[k] * bo_arr[k]!r} expected {mass!r} at p={q!r} oil={o};")
    # ------------------------------------------------------------------ water
    w = dict(case["water"])
    wpf, wsf = w.get("p_form", "float"), w.get("S_form", "float")
    w["p"], w["S"] = max(15.0, forms.representable(w["p"], wpf)), forms.representable(w["S"], wsf)
    wrel = max(forms.rel(wpf, 1e-12, 1e-5), forms.rel(wsf, 1e-12, 1e-5))
    res.labels["water_scalar_forms"] = "float" if (wpf, wsf) == ("float", "float") else "other"
    bw = float(lib("b_water_McCain", W.b_water_McCain, w["T"], forms.scalar(w["p"], wpf)))
    rw = float(lib("density_water_McCain", W.density_water_McCain, w["T"], forms.scalar(w["p"], wpf), forms.scalar(w["S"], wsf)))
    std = 62.368 + 0.438603 * w["S"] + 1.60074e-3 * w["S"] ** 2
    res.check("C07/water-density-times-Bw", abs(rw * bw - std), wrel * std, f"rho_w*Bw={rw * bw!r} brine density at standard conditions={std!r} for {w};")
    res.nontrivial = pr > 0.5 and straddle
    res.labels["gas_pr_band"] = "<0.5" if pr < 0.5 else ("0.5-5" if pr < 5 else ("5-16" if pr < 16 else "16-30"))
    res.labels["gas_tr_band"] = "1.05-1.2" if tr < 1.2 else ("1.2-1.5" if tr < 1.5 else "1.5-3")
    return res
