"""C20 - Plots carry the simulated data and the square-root axis is a true bijection."""

from __future__ import annotations

import math

import numpy as np
from hypothesis import strategies as st

from vf import flowcase, tables
from vf.core import Result, lib

ID = "C20"
TITLE = "Plots carry the simulated data and the square-root axis is a true bijection"
LEVEL = "exploration"
BUDGET = {"quick": 1600, "thorough": 200000}
SHRINK = {"quick": False, "thorough": True}
RULE = (
    "Headless (Agg) figures; no pixels are compared, only the artists' data. 'reservoir' cases: a simulated "
    "IdealReservoir or SinglePhaseReservoir (tables / pressure pairs as C01, nx 3..40, 3..120 strictly increasing "
    "times), a stride 'every' in 1..nt+5, both rescale and tick settings, with and without a supplied Axes; "
    "'comparison' cases: plot_production_comparison for a generated production table (zero-rate days, missing "
    "pressures), tau, M, p_initial, frac-face pressures down to ~12 psi, every pressure in psi / MPa / bar / Pa, both filter settings and window sizes; 'transform' cases: non-negative arrays "
    "spanning 1e-300..1e300 (and 0) through the square-root transform, its inverse and back - through Transform.transform, through transform_non_affine (the route of matplotlib composite transforms) and data -> display -> data on a real Axes. Non-trivial = a "
    "reservoir case with >= 2 drawn profiles, any comparison case, a transform array with >= 2 distinct positive "
    "magnitudes. The comparison figure's Days column is 0..n-1, 1..n, weekly, a calendar with gaps or fractional (it is the "
    "time axis when no filtering is requested); production tables may carry a water column with gaps and a comment column; "
    "the plotting helpers are given plot_kwargs None / {} / transparency / line style. Distinct = hash of the case record."
    " One reservoir case in forty stores 2001..2600 time levels on a 3..5 node grid and is drawn with every = 1..3."
)
ASSUMPTIONS = [
    "recovery rate 'is the time derivative of recovery' when every plotted value lies between the left and right difference quotients of the plotted recovery at that time (one-sided quotient at the ends), so any consistent derivative estimate passes",
    "transform: T(a) = sqrt(a) to 1 ulp; T^-1(T(a)) and T(T^-1(a)) equal a to 4 eps relative where no overflow/underflow occurs",
    "the comparison figure's simulated recovery is recomputed through the library's own simulator (C18 relates it to the forward model)",
]
LEVEL_TEXT = (
    "The Axes objects produced by the plotting helpers are inspected (line count, x/y data, scales) against the "
    "simulated arrays for generated reservoirs and strides; the axis transform is checked as an inverse pair "
    "over 600 orders of magnitude. Exploration."
)


@st.composite
def strategy_(draw):
    kind = draw(st.sampled_from(["reservoir", "reservoir", "comparison", "transform"]))
    if kind == "reservoir":
        # half of the table-based reservoirs are simulated with a frac-face schedule (constant, falling or arbitrary:
        # with a rising frac-face pressure the profile's minimum is not at the fracture any more)
        c = draw(flowcase.sim_case(nx_max=40, max_steps=120, schedules=draw(st.booleans()), with_library=False, time_kinds=("uniform", "quadratic", "geometric", "random")))
        if draw(st.integers(0, 39)) == 0:
            # a long run (thousands of stored profiles) on a tiny grid, drawn with every = 1..3: "every k-th profile"
            # has no upper limit on the number of profiles
            nt = draw(st.integers(2001, 2600))
            c["time"] = {"kind": "quadratic", "n": nt, "T": draw(st.floats(0.5, 5.0)), "start": 0.0}
            c["nx"] = draw(st.integers(3, 5))
            c["schedule"] = {"kind": "none"}
            c["long_every"] = draw(st.sampled_from([1, 2, 3]))
        c.update({"kind": kind, "every_frac": draw(st.floats(0.0, 1.1)), "rescale": draw(st.booleans()), "change_ticks": draw(st.booleans()), "own_axes": draw(st.booleans()), "plot_kwargs": draw(st.sampled_from(["none", "none", "empty", "color", "style"])), "pre_state": draw(st.sampled_from(["fresh", "fresh", "after-density-recovery", "after-interpolator"]))})
        return c
    if kind == "transform":
        n = draw(st.integers(1, 30))
        container = draw(st.sampled_from(["float64", "float64", "int64", "int32", "list-of-int", "float32"]))
        if container in ("int64", "int32", "list-of-int"):
            return {"kind": kind, "container": container, "values": [draw(st.integers(0, 40000)) for _ in range(n)]}
        return {"kind": kind, "container": container, "values": [draw(st.one_of(st.just(0.0), st.floats(-300.0, 300.0).map(lambda e: 10.0**e), st.floats(0.0, 1e6))) for _ in range(n)]}
    n = draw(st.integers(25, 90))
    return {
        "kind": kind,
        "n": n,
        "tau": draw(st.floats(30.0, 400.0)),
        "M": draw(st.floats(10.0, 1e5)),
        "p_i": draw(st.floats(5000.0, 11000.0)),
        "levels": [draw(st.one_of(st.floats(0.05, 0.9), st.floats(0.0025, 0.9))) for _ in range(3)],
        # unit of every pressure in the figure's inputs (table, production record, p_initial): psi, MPa, bar, Pa
        "p_unit": draw(st.sampled_from([1.0, 1.0, 1.0, 6.894757e-3, 0.06894757, 6894.757])),
        "zero_days": sorted(set(draw(st.lists(st.integers(1, n - 2), max_size=5)))),
        "nan_days": sorted(set(draw(st.lists(st.integers(1, n - 2), max_size=4)))),
        "filter": draw(st.booleans()),
        "window": draw(st.sampled_from([None, 1, 3, 7])),
        "rate_seed": draw(st.integers(0, 10**6)),
        "index": draw(st.sampled_from(["range", "repeated", "offset"])),
        "index_period": draw(st.integers(5, 30)),
        # the reported Days: daily from 0, daily from 1, weekly reports, a calendar with missing report days, fractional
        "days_kind": draw(st.sampled_from(["0..n-1", "0..n-1", "from1", "weekly", "gapped", "fractional"])),
        "extra_columns": draw(st.sampled_from(["none", "none", "nan-gaps", "strings-and-nan"])),
    }


def strategy(tier):
    return strategy_()


def _lines(ax):
    return [(np.asarray(l.get_xdata(), float), np.asarray(l.get_ydata(), float)) for l in ax.get_lines()]


def _same(a, b):
    return a.shape == b.shape and np.array_equal(a, b, equal_nan=True)


def _close(a, b, rtol=1e-13, atol=0.0):
    """Derived quantities (node positions, rescaled profiles, time over tau): equal up to a few ulp, however formed."""
    return a.shape == b.shape and np.allclose(a, b, rtol=rtol, atol=atol, equal_nan=True)


def check_case(case) -> Result:
    import matplotlib

    matplotlib.use("Agg", force=True)
    import matplotlib.pyplot as plt

    from bluebonnet import plotting as P

    res = Result()
    kind = case["kind"]
    res.labels["kind"] = kind
    try:
        if kind == "transform":
            container = case.get("container", "float64")
            a = np.array(case["values"], float)
            if container == "float32":
                a = a[(a < 1e30) & ((a > 1e-30) | (a == 0))]
                if a.size == 0:
                    a = np.array([2.0])
            given = {"int64": lambda: np.array(case["values"], np.int64), "int32": lambda: np.array(case["values"], np.int32), "list-of-int": lambda: [int(v) for v in case["values"]], "float32": lambda: a.astype(np.float32)}.get(container, lambda: a)()
            if container == "float32":
                a = np.asarray(given, float)
            res.labels["container"] = container
            scale = P.SquareRootScale(None)
            T = scale.get_transform()
            Ti = T.inverted()
            fa = np.asarray(T.transform_non_affine(given), float)
            want = np.sqrt(a)
            ulp = np.spacing(want) * (1.0 if container != "float32" else 2.0**29)
            if fa.shape != a.shape or np.any(np.abs(fa - want) > ulp):
                k = int(np.argmax(np.abs(fa - want) / np.maximum(ulp, 1e-320))) if fa.shape == a.shape else 0
                res.bad("C20/transform-is-square-root", f"transform({a[k]!r}) = {fa[k] if fa.shape == a.shape else fa!r}, sqrt = {want[k]!r}")
                return res
            back = np.asarray(Ti.transform(np.asarray(T.transform_non_affine(given))), float)
            ok = a > 0
            rel = np.abs(back[ok] - a[ok]) / a[ok]
            tol_rt = 4 * np.finfo(float).eps if container != "float32" else 4 * float(np.finfo(np.float32).eps)
            if np.any(a == 0) and np.any(back[a == 0] != 0):
                res.bad("C20/transform-inverse-pair", "inverse(transform(0)) != 0")
            if rel.size:
                res.check("C20/transform-inverse-pair", float(np.max(rel)), tol_rt, f"inverse(transform(a)) vs a at a={a[ok][int(np.argmax(rel))]!r} ({container});")
            # the other order, on values whose square is representable
            b = a[(a < 1e150) & ((a > 1e-150) | (a == 0))]
            if b.size and container in ("float64",):
                fwd = np.asarray(T.transform_non_affine(np.asarray(Ti.transform(b), float)), float)
                okb = b > 0
                if np.any(okb):
                    relb = np.abs(fwd[okb] - b[okb]) / b[okb]
                    res.check("C20/transform-inverse-pair", float(np.max(relb)), 4 * np.finfo(float).eps, f"transform(inverse(a)) vs a at a={b[okb][int(np.argmax(relb))]!r};")
            again = Ti.inverted()
            fa2 = np.asarray(again.transform_non_affine(given), float)
            if not _same(fa2, fa):
                res.bad("C20/transform-inverse-pair", "inverted().inverted() is not the forward transform")
            # the inverse as matplotlib itself reaches it: composite transforms call transform_non_affine of every
            # member, and an axis with this scale maps display coordinates back to data through
            # ax.transData.inverted() (cursor read-out, picking, zoom / pan)
            back_na = np.asarray(Ti.transform_non_affine(np.asarray(T.transform_non_affine(given))), float)
            if back_na.shape != a.shape or (rel.size and float(np.max(np.abs(back_na[ok] - a[ok]) / a[ok])) > tol_rt):
                k = int(np.argmax(np.abs(back_na[ok] - a[ok]) / a[ok])) if back_na.shape == a.shape and rel.size else 0
                res.bad("C20/transform-inverse-inside-composite", f"inverse.transform_non_affine(transform(a)) = {back_na[ok][k] if back_na.shape == a.shape and rel.size else back_na!r} for a = {a[ok][k] if rel.size else a!r} ({container}): the inverse is not applied when matplotlib composes it with other transforms;")
            top = float(np.max(a)) if a.size else 0.0
            if container == "float64" and 1e-100 < top < 1e100:
                from matplotlib.figure import Figure

                fig = Figure(figsize=(6.4, 4.8))
                ax = fig.subplots()
                ax.set_xscale("squareroot")
                ax.set_xlim(0.0, top)
                ax.set_ylim(0.0, 1.0)
                pts = np.column_stack([a, np.full_like(a, 0.5)])
                disp = ax.transData.transform(pts)
                data_back = np.asarray(ax.transData.inverted().transform(disp), float)
                err = float(np.max(np.abs(data_back[:, 0] - a))) if a.size else 0.0
                res.check("C20/transform-inverse-on-axes", err, 1e-9 * top, f"data -> display -> data on an axis with the square-root scale (x limits 0..{top!r}): x = {a[int(np.argmax(np.abs(data_back[:, 0] - a)))]!r} comes back as {data_back[int(np.argmax(np.abs(data_back[:, 0] - a))), 0]!r};")
            mags = {int(math.floor(math.log10(v))) for v in a if v > 0}
            res.nontrivial = len(mags) >= 2
            return res

        if kind == "reservoir":
            r = flowcase.run(case)
            if not flowcase.sound_field(r.res, r, res):
                return res
            m, t = r.m, r.time
            nt, nx = m.shape
            every = max(1, int(round(case["every_frac"] * (nt + 5))))
            if case.get("long_every"):
                every = int(case["long_every"])
            res.labels["stored_profiles"] = "<=2000" if nt <= 2000 else ">2000"
            res.labels["cls"] = case["cls"]
            ax_in = plt.subplots()[1] if case["own_axes"] else None
            # line styling handed through to Axes.plot (None, an empty dict, transparency, a line / marker style - not colour or label, which the helpers set themselves): the data
            # carried by the lines does not depend on it
            kw = {"none": None, "empty": {}, "color": {"alpha": 0.5, "zorder": 3}, "style": {"linestyle": "--", "marker": "o", "lw": 0.5}}[case.get("plot_kwargs", "none")]
            res.labels["plot_kwargs"] = case.get("plot_kwargs", "none")
            pk = (lambda: None if kw is None else dict(kw))  # noqa: E731 - a fresh dict per call
            # ---- pseudopressure profiles --------------------------------------------------------------
            ax = lib("plot_pseudopressure", P.plot_pseudopressure, r.res, every=every, rescale=case["rescale"], ax=ax_in, plot_kwargs=pk())
            if ax_in is not None and ax is not ax_in:
                res.bad("C20/uses-supplied-axes", "plot_pseudopressure did not draw on the supplied Axes")
            ls = _lines(ax)
            idx = list(range(0, nt, every))
            if len(ls) != len(idx):
                res.bad("C20/every-kth-profile", f"{len(ls)} profiles drawn for {nt} time levels with every={every} (expected {len(idx)})")
            else:
                xs = np.linspace(1 / nx, 1, nx)
                pinit = m[0, -1]
                for (x, y), i in zip(ls, idx):
                    if not _close(x, xs):
                        res.bad("C20/profile-against-node-position", f"x data of profile {i} is not linspace(1/nx, 1, nx)")
                        break
                    with np.errstate(all="ignore"):
                        want = (m[i] - m[i, 0]) / (pinit - m[i, 0]) if case["rescale"] else m[i]
                    # rescaled values are differences of nearly equal numbers divided by the drawdown: rounding of
                    # either is ~eps in absolute terms on the [0, 1] scale
                    if not (_close(y, want, 1e-12, 1e-12) if case["rescale"] else _same(y, want)):
                        k = int(np.nanargmax(np.abs(y - want))) if np.any(np.isfinite(y - want)) else 0
                        res.bad("C20/profile-carries-simulated-data", f"profile {i} (rescale={case['rescale']}): y[{k}]={y[k]!r}, simulated {want[k]!r}")
                        break
                    if case["rescale"] and np.isfinite(y[0]) and y[0] != 0:
                        res.bad("C20/profile-carries-simulated-data", f"rescaled profile {i} starts at {y[0]!r}, not 0")
                        break
            # ---- recovery factor ------------------------------------------------------------------------
            rf = np.asarray(lib("recovery_factor", r.res.recovery_factor), float).copy()
            # the figures show the simulated data whatever recovery calls the caller made before plotting (the
            # object caches the most recent recovery, possibly the in-place one; the figures must not pick that up)
            pre = case.get("pre_state", "fresh")
            res.labels["pre_state"] = pre

            def _pre():
                if pre == "after-density-recovery" and case["cls"] != "ideal":
                    lib("recovery_factor(density=True)", r.res.recovery_factor, density=True)
                elif pre == "after-interpolator":
                    if case["cls"] != "ideal":
                        lib("recovery_factor(density=True)", r.res.recovery_factor, density=True)
                    lib("recovery_factor_interpolator", r.res.recovery_factor_interpolator)

            _pre()
            ax2 = lib("plot_recovery_factor", P.plot_recovery_factor, r.res, ax=plt.subplots()[1] if case["own_axes"] else None, change_ticks=case["change_ticks"], plot_kwargs=pk())
            l2 = _lines(ax2)
            if len(l2) != 1 or not _same(l2[0][0], t) or not _same(l2[0][1], rf):
                res.bad("C20/recovery-against-scaled-time", f"plot_recovery_factor drew {len(l2)} line(s) whose data differ from (time, recovery_factor())")
            if ax2.get_xscale() != "squareroot":
                res.bad("C20/recovery-against-scaled-time", f"x scale of the recovery plot is {ax2.get_xscale()!r}")
            # ---- recovery rate --------------------------------------------------------------------------
            _pre()
            ax3 = lib("plot_recovery_rate", P.plot_recovery_rate, r.res, ax=plt.subplots()[1] if case["own_axes"] else None, change_ticks=case["change_ticks"], plot_kwargs=pk())
            l3 = _lines(ax3)
            if len(l3) != 1 or not _same(l3[0][0], t):
                res.bad("C20/rate-is-derivative-of-recovery", f"plot_recovery_rate drew {len(l3)} line(s) / x data is not the time axis")
            else:
                y = l3[0][1]
                q = np.diff(rf) / np.diff(t)  # quotient on interval k
                lo = np.concatenate([[q[0]], np.minimum(q[:-1], q[1:]), [q[-1]]])
                hi = np.concatenate([[q[0]], np.maximum(q[:-1], q[1:]), [q[-1]]])
                inv = 1.0 / np.diff(t)
                invs = np.concatenate([[inv[0]], inv[:-1] + inv[1:], [inv[-1]]])
                # rounding of a difference quotient of values of size max|rf| over a step dt is ~ eps max|rf| / dt
                slack = 1e-9 * (np.abs(lo) + np.abs(hi)) + 32 * np.finfo(float).eps * float(np.max(np.abs(rf))) * invs
                bad = ~((y >= lo - slack) & (y <= hi + slack))
                if np.any(bad):
                    k = int(np.flatnonzero(bad)[0])
                    res.bad("C20/rate-is-derivative-of-recovery", f"rate[{k}]={y[k]!r} outside the difference quotients [{lo[k]!r}, {hi[k]!r}] of recovery at t={t[k]!r}")
            res.nontrivial = len(idx) >= 2
            res.labels["rescale"] = case["rescale"]
            res.labels["profiles"] = min(len(idx), 5)
            return res

        # ---- production comparison ---------------------------------------------------------------------
        import pandas as pd
        from lmfit import Parameters

        from bluebonnet.flow import FlowProperties, SinglePhaseReservoir
        from bluebonnet.forecast import plot_production_comparison

        n = case["n"]
        unit = float(case.get("p_unit", 1.0))
        res.labels["p_unit"] = str(unit)
        tab = tables.build({"family": "shipped", "name": "hay", "thin": 1, "p_unit": unit})
        pvt = pd.DataFrame(tab)
        p_i = case["p_i"] * unit
        days = np.arange(n, dtype=float)
        dk = case.get("days_kind", "0..n-1")
        if dk == "from1":
            days = days + 1.0
        elif dk == "weekly":
            days = 1.0 + 7.0 * days
        elif dk == "gapped":
            days = days + np.cumsum(np.arange(n) % 7 == 3)
        elif dk == "fractional":
            days = 0.25 + 0.5 * days
        res.labels["days_kind"] = dk
        third = n // 3
        pf = np.concatenate([np.full(third, case["levels"][0]), np.full(third, case["levels"][1]), np.full(n - 2 * third, case["levels"][2])]) * p_i
        rng = np.random.default_rng(case["rate_seed"])
        gas = rng.uniform(0.5, 2.0, n) * case["M"] / n / 3
        gas[case["zero_days"]] = 0.0
        pres = pf.copy()
        pres[case["nan_days"]] = np.nan
        if not case["filter"]:
            pres = pf.copy()  # unfiltered tables must not contain missing pressures
        prod = pd.DataFrame({"Days": days, "Gas": gas, "Pressure": pres})
        extra = case.get("extra_columns", "none")
        if extra != "none":  # further columns of a production export, with gaps on days that have gas and pressure
            prod.insert(0, "Water", np.where(np.arange(n) % 3 == 1, np.nan, 1.0 + np.arange(n) % 5))
            if extra == "strings-and-nan":
                prod["Comment"] = [None if k % 4 else "shut in for workover" for k in range(n)]
        res.labels["extra_columns"] = extra
        if case.get("index") == "repeated":  # row labels as from monthly files concatenated without ignore_index
            prod.index = np.arange(n) % case["index_period"]
        elif case.get("index") == "offset":
            prod.index = np.arange(n) + 500
        params = Parameters()
        params.add("tau", value=case["tau"])
        params.add("M", value=case["M"])
        params.add("p_initial", value=p_i)
        from bluebonnet.forecast import forecast_pressure as FP

        from vf.props import c18

        c18._NX["observed"] = None
        fig, (ax1, ax2) = lib("plot_production_comparison", c18.observe_nx, FP, lambda: plot_production_comparison(prod, pvt, params, filter_window_size=case["window"], filter_zero_prod_days=case["filter"]))
        # the figure's own simulation: 80 nodes (anchored), a finer model is accepted (see C18)
        nx_fig = c18._NX["observed"] if c18._NX["observed"] and c18._NX["observed"] >= c18.NX_ANCHORED else c18.NX_ANCHORED
        keep = (gas > 0) & ~np.isnan(pres) if case["filter"] else np.ones(n, bool)
        tt = (np.arange(int(keep.sum()), dtype=float) if case["filter"] else days) / case["tau"]
        pfk = pres[keep]
        if case["window"] is not None:
            import scipy.ndimage

            pfk = scipy.ndimage.uniform_filter1d(pfk, size=case["window"])
        cum = np.cumsum(gas[keep])
        sim = SinglePhaseReservoir(nx_fig, pfk, p_i, FlowProperties(pvt, p_i))
        sim.simulate(tt, pressure_fracface=pfk)
        rf = np.asarray(sim.recovery_factor(), float)
        l1, l2 = _lines(ax1), _lines(ax2)
        if len(l1) != 2 or len(l2) != 1:
            res.bad("C20/comparison-figure", f"comparison figure has {len(l1)} + {len(l2)} lines, expected 2 + 1")
            return res
        for name, (x, y), want in (("simulated recovery", l1[0], rf), ("cumulative production over M", l1[1], cum / case["M"]), ("frac-face pressure", l2[0], pfk)):
            if not _close(x, tt):
                res.bad("C20/comparison-figure", f"{name}: x data is not time over tau")
                break
            if y.shape != want.shape or not np.allclose(y, want, rtol=1e-10, atol=1e-13):
                res.bad("C20/comparison-figure", f"{name}: y data differs from the expected series (max diff {float(np.max(np.abs(y - want))) if y.shape == want.shape else 'shape'})")
                break
        res.nontrivial = True
        res.labels["filter"] = case["filter"]
        res.labels["window"] = str(case["window"])
        return res
    finally:
        plt.close("all")
