"""C03 - Recovery factor conserves mass and respects its physical ceiling."""

from __future__ import annotations

import numpy as np
from hypothesis import strategies as st

from vf import flowcase, refs, tables
from vf.core import Result, lib
from vf.props import c01

ID = "C03"
TITLE = "Recovery factor conserves mass and respects its physical ceiling"
LEVEL = "exploration"
BUDGET = {"quick": 2400, "thorough": 160000}
SHRINK = {"quick": False, "thorough": True}
TIME_LIMIT = {"quick": 150, "thorough": 3300}
RULE = (
    "'run' cases: tables / pressure pairs / nx / time grids / schedules as C01 (single-phase on thermodynamically "
    "consistent synthetic families, shipped and library-built gas tables; ideal reservoir), both recovery modes "
    "computed on every run. 'ladder' cases: (nx, nt) = (20,200) -> (40,800) -> (80,3200) on quadratic grids with a "
    "constant or stepwise-decreasing schedule, the flux/in-place gap measured on each rung. Non-trivial = nx >= 5, "
    "relaxed to < 1 % of the drawdown or >= 50 steps, and an admissible gap (C/nx ceiling + E_t + eps_table) below "
    "half the ceiling (otherwise the gap oracle is vacuous - counted separately); or a ladder. Distinct = hash of the "
    "case record."
    " One case in nine reaches the simulation through a copy.copy / deepcopy / pickle round trip of the fluid or a deepcopy of the reservoir."
)
ASSUMPTIONS = [
    "ceiling = 1 - rho(min p_f)/rho(p_i) with rho the table's density column looked up in scaled pseudopressure",
    "eps_table = max over [min m_f, m_i] of |D(m_i) - D(m)|, D(m) = integral_{m_f}^{m} alpha_i/alpha dm' - (rho(m) - rho_f)/rho_i, from the raw table columns with the documented scaling m (c mu z / 2p)(p_i), computed by the harness (zero for a consistent continuous table): in the continuum the two recoveries differ by at most eps_table (DESIGN.md C03)",
    "E_t = 1/2 sum_i dt_i |rate_{i+1} - rate_i|: backward Euler balances mass with the right-endpoint rule while the library integrates the same rates with the trapezoid rule",
    "first-order discretisation: |flux - in-place| <= C ceiling (1/nx + theta) + E_t + eps_table with C = 3 and theta the largest per-step change of the field relative to the drawdown weighted by the diffusivity variation (time-linearisation of the lagged diffusivity); calibrated on the repaired tree",
    "plateau: when the a-priori relaxation bound (C01, from the time grid and the schedule only) is below 1e-6 of the drawdown, in-place recovery must end at 1 - rho(p_last)/rho(p_i) within (C/nx + 1e-4) of the ceiling (first-order: node 0 starts at the frac-face value), p_last the frac-face pressure used by the last steps; flux recovery within the gap model of it",
    "monotonicity and ceiling tolerances: 1e-6 of the ceiling plus a rounding model (stencil cancellation ~ eps |m_i| nx integrated over the step; sums over nx nodes ~ eps nx); a wrong sign or stencil gives decreases of the order of the ceiling itself",
]
LEVEL_TEXT = (
    "Both recovery modes are computed on every generated run and related through an a-posteriori error model "
    "(measured table inconsistency, measured time-quadrature term, first-order space term), with ceilings, "
    "monotonicity (literal; falls of in-place recovery covered by the mass node 0 regains are a known finding, any other fall a violation) and zero-at-start checks; ladders check that the gap shrinks. Exploration."
)

C_GAP = 3.0


@st.composite
def strategy_(draw, tier):
    if draw(st.integers(0, 47)) == 0:
        c = draw(flowcase.sim_case(nx_max=20, max_steps=10, classes=("single",), schedules=False, with_library=tier != "quick"))
        c["kind"] = "ladder"
        c["T"] = draw(st.floats(1.0, 4.0))
        c["schedule"] = draw(st.sampled_from([{"kind": "none"}, {"kind": "none"}, {"kind": "stepdown", "levels": [1.0, 0.5, 0.0], "breaks": [0.3, 0.6]}]))
        c.pop("time")
        return c
    kinds = ("quadratic", "quadratic", "geometric", "geometric", "uniform", "random", "big", "repeat")
    c = draw(flowcase.sim_case(nx_max=400, max_steps=200, table_nmax=300, time_kinds=kinds) if tier == "quick" else flowcase.sim_case(nx_max=400, max_steps=1500, table_nmax=600, time_kinds=kinds))
    c["kind"] = "run"
    return c


def strategy(tier):
    return strategy_(tier)


def table_inconsistency(r: flowcase.Run):
    """eps_table and the density lookups from the raw table with the documented scaling.

    The scaled pseudopressure and diffusivity columns are recomputed by the harness from the raw PVT columns
    (m * (c mu z / 2p)(p_i), 1/(c mu)), not taken from the wrapper, so that a wrapper that scales differently
    cannot widen its own tolerance."""
    tab = r.tab
    p = tab["pressure"]
    factor = float(np.interp(r.p_i, p, 0.5 * tab["compressibility"] * tab["viscosity"] * tab["z-factor"] / p))
    ms = tab["pseudopressure"] * factor
    al = 1.0 / (tab["compressibility"] * tab["viscosity"])
    rho = np.asarray(tab["density"], float)
    pf_min = r.p_f if r.schedule is None else float(np.min(r.schedule))
    lo, hi = float(np.interp(pf_min, p, ms)), float(np.interp(r.p_i, p, ms))
    R, _ = refs.implied_density(ms, al, lo, hi)
    rho_i = float(np.interp(hi, ms, rho))
    rho_f = float(np.interp(lo, ms, rho))
    pts = np.unique(np.concatenate([np.linspace(lo, hi, 400), ms[(ms > lo) & (ms < hi)]]))
    D = R(pts) - (np.interp(pts, ms, rho) - rho_f) / rho_i
    eps = float(np.max(np.abs(D[-1] - D)))
    return eps, 1.0 - rho_f / rho_i, (ms, rho, rho_i)


def gap_model(r: flowcase.Run, m, t):
    """E_t and theta (time-linearisation) measured from the stored field."""
    nx = m.shape[1]
    rate = (-m[:, 2] + 4 * m[:, 1] - 3 * m[:, 0]) * (nx - 1) * 0.5 if nx >= 3 else np.zeros(len(t))
    e_t = 0.5 * float(np.sum(np.diff(t) * np.abs(np.diff(rate))))
    return e_t


def check_run(case, res):
    r = flowcase.run(case)
    res.labels.update(flowcase.labels(case, r))
    if not flowcase.sound_field(r.res, r, res):
        return
    m, t = r.m, r.time
    nt, nx = m.shape
    rff = np.asarray(lib("recovery_factor", r.res.recovery_factor), float).copy()
    if rff.shape != (nt,) or not np.all(np.isfinite(rff)):
        res.bad("C03/finite", f"flux recovery of shape {rff.shape} / not finite")
        return
    if rff[0] != 0.0:
        res.bad("C03/zero-at-first-time", f"flux recovery starts at {rff[0]!r}")
    if case["cls"] == "ideal":
        S = 1 - r.p_f / r.p_i
        e_t = gap_model(r, m, t) * S
        rb = c01.relaxation_bound(r)
        res.labels["relaxed"] = bool(rb < 1e-6)
        # rounding of the one-sided flux stencil integrated over the run, as for the table-based classes: each stored
        # level carries a rounding error of up to ~eps times the previous level (whatever exact solver / update form is
        # used), the stencil multiplies it by ~nx and the time quadrature by the elapsed time
        round_flux = 1024 * np.finfo(float).eps * nx * float(t[-1] - t[0]) * S
        if rb < 1e-6 and nx >= 3 and C_GAP / nx * S + e_t + round_flux < S:  # otherwise the bound says nothing
            res.check("C03/ideal-plateau", max(abs(rff[-1] - S) - e_t, 0.0), C_GAP / nx * S + 1e-9 + round_flux, f"ideal-gas recovery plateaus at {rff[-1]!r}, 1 - p_f/p_i = {S!r} (nx={nx}, E_t={e_t!r});")
        dec = float(np.max(-np.diff(rff))) if nt > 1 else 0.0
        res.check("C03/flux-recovery-non-decreasing", max(dec, 0.0), 1e-6 * S + 1e-12 + 1024 * np.finfo(float).eps * nx * float(np.max(np.diff(t))) if nt > 1 else 1e-12, f"ideal flux recovery decreases by {dec!r} (S={S!r});")
        res.nontrivial = bool(nx >= 5 and (rb < 1e-2 or nt >= 51) and (C_GAP / nx * S + e_t) < 0.5 * S)
        return
    rfd = np.asarray(lib("recovery_factor(density)", r.res.recovery_factor, density=True), float).copy()
    if rfd.shape != (nt,) or not np.all(np.isfinite(rfd)):
        res.bad("C03/finite", f"in-place recovery of shape {rfd.shape} / not finite")
        return
    if rfd[0] != 0.0:
        res.bad("C03/zero-at-first-time", f"in-place recovery starts at {rfd[0]!r}")
    eps, ceiling, (ms, rho, rho_i) = table_inconsistency(r)
    if not ceiling > 0:
        res.skipped = "no drawdown in density"
        return
    inside = (ms >= np.min(r.m_f)) & (ms <= r.m_i)
    if np.any(np.diff(rho[inside]) <= 0):
        res.skipped = "density column not increasing on [m_f, m_i] (table not consistent)"
        return
    e_t = gap_model(r, m, t)
    # time-linearisation of the lagged diffusivity: largest per-step change (relative to the drawdown) times the
    # relative variation of the diffusivity over [m_f, m_i]
    a_lo = c01.a_min_scaled(r)
    pts = np.concatenate([[float(np.min(r.m_f)), r.m_i], ms[(ms > np.min(r.m_f)) & (ms < r.m_i)]])
    a_hi = float(np.max(r.alpha_scaled(pts)))
    var = (a_hi - a_lo) / a_lo
    step = float(np.max(np.abs(np.diff(m[:, 1:], axis=0)))) / r.d if nt > 1 and r.d > 0 else 0.0
    theta = min(1.0, var) * step
    gap = float(np.max(np.abs(rff - rfd)))
    # rounding of the one-sided flux stencil (cancellation among three nearly equal values) integrated over time
    round_flux = 1024 * np.finfo(float).eps * abs(r.m_i) * nx * float(t[-1] - t[0])
    admissible = C_GAP * ceiling * (1.0 / nx + theta) + e_t + eps + 1e-9 * ceiling + round_flux
    k = int(np.argmax(np.abs(rff - rfd)))
    if admissible < ceiling:  # otherwise the bound says nothing (coarse first step: E_t alone exceeds the ceiling)
        res.check(
            "C03/flux-equals-in-place",
            max(gap - e_t - eps, 0.0),
            admissible - e_t - eps,
            f"flux recovery {rff[k]!r} vs in-place {rfd[k]!r} at t={t[k]!r} (ceiling {ceiling!r}, nx={nx}, E_t={e_t!r}, eps_table={eps!r}, theta={theta!r}, p_f/p_i={r.p_f / r.p_i!r});",
        )
    # in-place recovery never exceeds the ceiling
    res.check("C03/in-place-below-ceiling", max(float(np.max(rfd)) - ceiling, 0.0), 1e-6 * ceiling + 1e-13 + 512 * np.finfo(float).eps * nx, f"in-place recovery {float(np.max(rfd))!r} above 1 - rho_f/rho_i = {ceiling!r} (p_f/p_i={r.p_f / r.p_i!r}, nx={nx});")
    # monotone in time while the frac-face pressure does not rise
    sched = r.schedule
    non_rising = sched is None or bool(np.all(np.diff(sched) <= 0))
    if non_rising and nt > 1:
        # rounding of the one-sided stencil (~ 8 eps |m| nx) is integrated over the step
        # (stencil cancellation plus the direct solve's own rounding in the relaxed state: ~75 eps measured)
        tol_i = 1e-6 * ceiling + 1e-12 + 1024 * np.finfo(float).eps * abs(r.m_i) * nx * np.diff(t)
        dec = -np.diff(rff) - tol_i
        kk = int(np.argmax(dec))
        res.check("C03/flux-recovery-non-decreasing", max(float(-np.diff(rff)[kk]), 0.0), float(tol_i[kk]), f"flux recovery decreases by {float(-np.diff(rff)[kk])!r} on step {kk} (dt={float(np.diff(t)[kk])!r}, ceiling {ceiling!r}, p_f/p_i={r.p_f / r.p_i!r});")
        # in place: may fall only by the mass node 0 regains
        dens = np.interp(m, ms, rho)
        mass0 = float(np.sum(dens[0]))
        regain = np.maximum(dens[1:, 0] - dens[:-1, 0], 0.0) / mass0
        drop = -np.diff(rfd) - regain
        # 1 - sum(rho)/sum(rho_0) over nx nodes carries a rounding error of ~ eps nx in absolute terms
        tol_ip = 1e-6 * ceiling + 1e-12 + 512 * np.finfo(float).eps * nx
        res.check("C03/in-place-recovery-non-decreasing", max(float(np.max(drop)), 0.0), tol_ip, f"in-place recovery decreases by more than node 0 regains: {float(np.max(drop))!r} (ceiling {ceiling!r});")
        # the literal sentence: in-place recovery does not decrease at all.  On the unchanged tree it does, by what node 0
        # regains when it rises (it is reset to the frac-face value before every step; same root cause as C01's known
        # finding): recorded as a known finding, recognised by exactly that mechanism (the oracle above reports any
        # decrease that node 0's regain does not cover)
        falls = -np.diff(rfd)
        if float(np.max(falls)) > tol_ip and float(np.max(drop)) <= tol_ip:
            kf = int(np.argmax(falls))
            res.bad("C03/in-place-recovery-non-decreasing-literal", f"in-place recovery falls by {float(falls[kf])!r} ({float(falls[kf]) / ceiling:.3g} of the ceiling) on step {kf}->{kf + 1} (dt={float(np.diff(t)[kf])!r}); node 0 regains {float(regain[kf])!r} of the initial mass on that step (it is reset to the frac-face value before every step and rises when the step grows); nx={nx}")
            res.labels["literal_in_place_monotone"] = "violated"
    rb = c01.relaxation_bound(r) if r.constant_drawdown and nt > 1 else float("inf")
    # plateau: once the run has relaxed to the frac-face value used by its last steps (a-priori bound from the time
    # grid and the schedule, not from the field) the fluid in place is that of a reservoir at that pressure, so
    # in-place recovery is 1 - rho(p_last)/rho(p_i) (ideal gas: 1 - p_last/p_i) whatever path the schedule took
    if nt > 2 and case["cls"] == "single":
        k0, m_last = c01.final_level(r)
        rb_t = c01.relaxation_bound(r, tail=True)
        res.labels["plateau_checked"] = bool(rb_t < 1e-6 * r.d)
        if rb_t < 1e-6 * r.d:
            plateau = 1.0 - float(np.interp(m_last, ms, rho)) / rho_i
            # node 0 starts at the frac-face value, so the discrete mass in place differs from the continuum's by O(1/nx)
            tol_p = C_GAP * ceiling / nx + 1e-4 * ceiling + 1e-12 + 512 * np.finfo(float).eps * nx
            res.check("C03/plateau-at-final-frac-face-pressure", abs(float(rfd[-1]) - plateau), tol_p, f"relaxed run (bound {rb_t!r} of d={r.d!r}; schedule constant from level {k0} of {nt - 1}): in-place recovery ends at {float(rfd[-1])!r}, 1 - rho(p_last)/rho(p_i) = {plateau!r} (ceiling {ceiling!r}, nx={nx});")
            if admissible < ceiling:
                res.check("C03/plateau-at-final-frac-face-pressure", max(abs(float(rff[-1]) - plateau) - e_t - eps, 0.0), admissible - e_t - eps + tol_p, f"relaxed run: flux recovery ends at {float(rff[-1])!r}, plateau 1 - rho(p_last)/rho(p_i) = {plateau!r} (ceiling {ceiling!r}, nx={nx}, E_t={e_t!r});")
    res.labels["gap_oracle"] = "effective" if admissible < 0.5 * ceiling else "vacuous"
    res.nontrivial = bool(nx >= 5 and (rb < 1e-2 * r.d or nt >= 51) and admissible < 0.5 * ceiling)
    res.labels["eps_table_over_ceiling"] = "0" if eps < 1e-9 * ceiling else ("<1e-3" if eps < 1e-3 * ceiling else ">=1e-3")


def check_ladder(case, res):
    gaps, adm = [], []
    nxs = [20, 40, 80]  # nx = 10 is pre-asymptotic for strongly pressure-dependent diffusivity (ratio 0.93 measured)
    for nx in nxs:
        c = dict(case, nx=nx, time={"kind": "quadratic", "n": nx * nx // 2 + 1, "T": case["T"], "start": 0.0})
        r = flowcase.run(c)
        if not flowcase.sound_field(r.res, r, res):
            return
        rff = np.asarray(lib("recovery_factor", r.res.recovery_factor), float).copy()
        rfd = np.asarray(lib("recovery_factor(density)", r.res.recovery_factor, density=True), float).copy()
        eps, ceiling, _ = table_inconsistency(r)
        if not ceiling > 0:
            res.skipped = "no drawdown in density"
            return
        gaps.append(float(np.max(np.abs(rff - rfd))) / ceiling)
        adm.append(eps / ceiling)
    res.labels["cls"] = "ladder"
    res.labels["table"] = case["table"]["family"]
    # the table's own inconsistency does not shrink with the grid: compare the part above it.  Calibration on the
    # repaired tree: consecutive ratios up to 0.73 at nx 10 -> 20 (pre-asymptotic), overall 40/10 ratio <= 0.47
    e = 1.5 * max(adm)
    if gaps[0] > 10 * max(adm) + 1e-4:
        worst = max((b - e) / a for a, b in zip(gaps[:-1], gaps[1:]))
        res.check("C03/gap-shrinks-under-refinement", worst, 0.85, f"flux/in-place gap (relative to the ceiling) goes {gaps} along nx={nxs} (eps_table/ceiling {max(adm)!r}): consecutive ratio;")
        res.check("C03/gap-shrinks-under-refinement", (gaps[-1] - e) / gaps[0], 0.65, f"flux/in-place gap (relative to the ceiling) goes {gaps} along nx={nxs} (eps_table/ceiling {max(adm)!r}): overall ratio;")
    res.check("C03/flux-equals-in-place", gaps[-1], C_GAP / nxs[-1] * 2 + 1.5 * max(adm) + 1e-9, f"gap {gaps[-1]!r} of the ceiling at nx={nxs[-1]} (ladder {gaps});")
    res.nontrivial = True


def known_match(case, v):
    """Known finding: falls of in-place recovery covered by the mass node 0 regains (mechanism decided where it is raised)."""
    return "node0-regains-mass-when-step-grows" if v.oracle == "C03/in-place-recovery-non-decreasing-literal" else None


def check_case(case) -> Result:
    res = Result()
    if case["kind"] == "ladder":
        check_ladder(case, res)
    else:
        check_run(case, res)
    return res
