"""C02 - Solver converges to the solution of the documented diffusion problem."""

from __future__ import annotations

import functools
import json

import numpy as np
from hypothesis import strategies as st

from vf import refs, tables
from vf.core import HarnessProblem, Result, lib

ID = "C02"
TITLE = "Solver converges to the solution of the documented diffusion problem"
LEVEL = "exploration"
BUDGET = {"quick": 96, "thorough": 1600}
SHRINK = {"quick": False, "thorough": False}
TIME_LIMIT = {"quick": 170, "thorough": 3300}
RULE = (
    "Each case is a refinement ladder (nx, nt) -> (2 nx, 4 nt) of 3 rungs in quick (nx 10, 20, 40; a fourth rung 80 in "
    "one case of three) and 4..5 rungs in thorough (up to nx = 160, nt = 25600) on quadratic time grids to T in [1, 4]: "
    "IdealReservoir for a generated pressure pair; SinglePhaseReservoir on constant-diffusivity synthetic tables "
    "(closed-form Fourier series) and on pressure-dependent tables (synthetic power-law / kinked / real-gas "
    "families, shipped gas tables; reference = the harness's method-of-lines solution with 600 true-Dirichlet "
    "cells, LSODA rtol 1e-9, own diffusivity lookup, self-validated against the closed form), for p_f/p_i uniform "
    "in (0.01, 0.99) or 1 - 10^-u, u in [1, 4]. Non-trivial = a ladder with >= 3 rungs whose finest nx >= 40. "
    "The constant-diffusivity tables are the power-law family with mu ~ p (m proportional to p) and a slightly compressible "
    "liquid (constant c and mu: diffusivity column exactly flat, m ~ exp(c p), so m(p_f)/m(p_i) != p_f/p_i). "
    "Half of the ladders run on ONE object whose public nx field is reassigned between rungs, the others build a new object per rung. "
    "Distinct = hash of the case record."
)
ASSUMPTIONS = [
    "the documented problem: u_t = (alpha/alpha_i) u_xx, u(0,t) = m_f, u_x(1,t) = 0, u(x,0) = m_i in scaled variables (docs/background.md)",
    "first-order small: max_t |recovery - reference| <= C_r S / nx and max |field - reference| <= C_f d / nx at sampled times >= 0.05, with C_r, C_f calibrated on the repaired tree (see DESIGN.md) with >= 3x headroom; shrinking: error(2 nx) <= 0.7 error(nx) whenever error(nx) is above the reference's own accuracy",
    "library node j of a single-phase run sits at x = (j+1)/nx, of an ideal run at x = j/(nx-1) (the positions the plotting helper / the code's linspace use); the O(1/nx) ambiguity of these conventions is inside C_f",
    "in-place recovery of a table is compared with the reference's in-place recovery computed from the same density column",
]
LEVEL_TEXT = (
    "Finite refinement ladders against independent exact / fine-grid solutions of the documented boundary-value "
    "problem: shows first-order accuracy and error reduction under refinement on every generated table and "
    "pressure pair; it cannot prove the limit."
)
LEVEL_NOTE = (
    "Trusted: the harness's Fourier series and method-of-lines reference (SciPy LSODA), which is validated against "
    "the closed form in every worker before use; NumPy/SciPy; Hypothesis."
)

C_R = 4.0   # recovery: |error| <= C_R * S / nx     (calibration: worst 1.1 ideal, 1.3 single phase)
C_F = 8.0   # field:    |error| <= C_F * d / nx     (calibration: worst 2.5 ideal, 2.6 single phase)
SHRINK_RATIO = 0.7
N_REF = 600


@st.composite
def strategy_(draw, tier):
    cls = draw(st.sampled_from(["ideal", "const", "const", "pdep", "pdep", "pdep"]))
    rungs = 3 if tier == "quick" else draw(st.sampled_from([4, 4, 5]))
    if tier == "quick" and draw(st.integers(0, 2)) == 0:
        rungs = 4
    c = {
        "cls": cls,
        "rungs": rungs,
        "nx0": 10,
        "T": draw(st.floats(1.0, 4.0)),
        "ratio": draw(st.one_of(st.floats(0.01, 0.99), st.floats(1.0, 4.0).map(lambda u: 1.0 - 10.0 ** (-u)))),
        # the ladder on one object whose public `nx` field is reassigned between rungs (the reservoir classes are mutable
        # dataclasses), or a new object per rung
        "one_object": draw(st.booleans()),
    }
    if cls == "ideal":
        c["p_i"] = draw(st.floats(100.0, 15000.0))
        return c
    if cls == "const":
        c["table"] = draw(tables.synthetic_spec(nmax=200, families=("power1", "liquid")))
    else:
        c["table"] = draw(st.one_of(tables.synthetic_spec(nmax=300, families=("power", "kinked", "realgas")), tables.synthetic_spec(nmax=300, families=("power", "kinked", "realgas")), tables.shipped_spec()))
    # the same fluid in another unit of viscosity (tables.build): the scaled problem does not change, absolute
    # diffusivities do (1e15 gives alpha ~ 1e-11)
    c["table"] = dict(c["table"], mu_unit=draw(st.sampled_from([0, 0, 0, -3, 3, 12, 15, -6, -9])), p_unit=draw(st.sampled_from([1.0, 1.0, 1.0, 6894.757, 0.06894757])))
    c["pi_frac"] = draw(st.floats(0.3, 1.0))
    c["pi_on_node"] = draw(st.booleans())
    c["rows"] = "descending" if draw(st.integers(0, 5)) == 0 else "ascending"
    c["container"] = draw(st.sampled_from(tables.CONTAINERS))
    return c


def strategy(tier):
    return strategy_(tier)


def harness_columns(tab, p_i):
    """Scaled pseudopressure and diffusivity columns computed by the harness from the raw PVT columns."""
    p = tab["pressure"]
    factor = float(np.interp(p_i, p, 0.5 * tab["compressibility"] * tab["viscosity"] * tab["z-factor"] / p))
    return tab["pseudopressure"] * factor, 1.0 / (tab["compressibility"] * tab["viscosity"])


@functools.lru_cache(maxsize=1)
def validate_mol():
    """The reference must reproduce the closed form before it is trusted (harness error otherwise)."""
    ms = np.array([0.0, 1.0])
    al = np.array([2.0, 2.0])
    ref = refs.MolReference(ms, al, 0.2, 1.0, n=N_REF).solve(2.0)
    worst = 0.0
    for t in (0.05, 0.3, 1.0, 2.0):
        want = 0.2 + 0.8 * refs.fourier_field(ref.x, t)
        worst = max(worst, float(np.max(np.abs(ref.field(t) - want))) / 0.8)
    if worst > 2e-5:
        raise HarnessProblem(f"method-of-lines reference disagrees with the closed form by {worst:.3g}")
    return worst


def check_case(case) -> Result:
    from bluebonnet.flow import FlowProperties, IdealReservoir, SinglePhaseReservoir

    res = Result()
    cls = case["cls"]
    res.labels["cls"] = cls
    T = case["T"]
    nxs = [case["nx0"] * 2**k for k in range(case["rungs"])]
    if cls == "ideal":
        p_i = case["p_i"]
        p_f = p_i * case["ratio"]
        S = 1 - p_f / p_i
        u_f, u_i = 0.0, 1.0
        fluid = tab = None
    else:
        tab = tables.build(case["table"])
        p_f, p_i = tables.resolve_pair(tab, {"pi_frac": case["pi_frac"], "pi_on_node": case["pi_on_node"], "ratio": case["ratio"]})
        if case.get("rows") == "descending":  # rows from high to low pressure: the wrapper's interpolators sort
            from vf.core import Inadmissible

            try:
                fluid = FlowProperties(tables.as_container({c: v[::-1].copy() for c, v in tab.items()}, case.get("container", "dict")), p_i)
            except Exception as e:  # noqa: BLE001 - a wrapper may legitimately insist on increasing pressure
                raise Inadmissible(f"table with descending rows rejected by the wrapper ({type(e).__name__})") from e
        else:
            fluid = lib("FlowProperties", FlowProperties, tables.as_container(tab, case.get("container", "dict")), p_i)
        res.labels["rows"] = case.get("rows", "ascending")
        res.labels["table"] = case["table"]["family"] + (":" + case["table"]["name"] if case["table"]["family"] == "shipped" else "")
    ratio = p_f / p_i
    res.labels["pf_over_pi"] = "<0.5" if ratio < 0.5 else ("0.5-0.9" if ratio < 0.9 else ("0.9-0.99" if ratio < 0.99 else ">0.99"))

    # ---- reference -------------------------------------------------------------------------------------
    mol = None
    if cls != "ideal":
        ms_h, al_h = harness_columns(tab, p_i)
        u_i = float(np.interp(p_i, tab["pressure"], ms_h))
        u_f = float(np.interp(p_f, tab["pressure"], ms_h))
        dens = lambda u: np.interp(u, ms_h, tab["density"])  # noqa: E731
        rho_i = float(dens(u_i))
        if cls == "pdep":
            validate_mol()
            mol = refs.MolReference(ms_h, al_h, u_f, u_i, n=N_REF).solve(T)
            R, _ = refs.implied_density(ms_h, al_h, u_f, u_i)
        S = 1.0 - float(dens(u_f)) / rho_i  # in-place plateau
    d = u_i - u_f
    # sampled times for the comparisons (shared by all rungs: every rung's grid contains them up to interpolation)
    t_s = np.array([0.05, 0.1, 0.2, 0.4, 0.7, 1.0, 1.5, 2.0, 3.0, 4.0])
    t_s = t_s[t_s <= T]
    if cls == "pdep":
        ref_flux = np.array([mol.integral(lambda u: R(u_i) - R(u), t) for t in t_s])
        ref_inpl = np.array([mol.integral(lambda u: (rho_i - dens(u)) / rho_i, t) for t in t_s])
        S_flux = float(R(u_i))  # plateau of the flux recovery implied by the table's diffusivity column
    else:
        frac = refs.fourier_recovery(t_s)
        ref_flux = (S if cls == "ideal" else d) * frac
        ref_inpl = S * frac
        S_flux = S if cls == "ideal" else d

    errs = {"flux": [], "inplace": [], "field": []}
    r = None
    res.labels["ladder_on_one_object"] = bool(case.get("one_object"))
    for nx in nxs:
        nt = nx * nx
        t = np.linspace(0.0, np.sqrt(T), nt + 1) ** 2
        if r is not None and case.get("one_object"):
            r.nx = nx
        elif cls == "ideal":
            r = IdealReservoir(nx, p_f, p_i, None)
        else:
            r = SinglePhaseReservoir(nx, p_f, p_i, fluid)
        x = np.linspace(0.0, 1.0, nx) if cls == "ideal" else np.arange(1, nx + 1) / nx
        lib("simulate", r.simulate, t)
        m = np.asarray(r.pseudopressure, float)
        if m.shape != (nt + 1, nx) or not np.all(np.isfinite(m)):
            res.bad("C02/finite", f"field of shape {m.shape} / non-finite values at nx={nx}")
            return res
        rf = np.asarray(lib("recovery_factor", r.recovery_factor), float).copy()
        rf_at = np.interp(t_s, t, rf)
        errs["flux"].append(float(np.max(np.abs(rf_at - ref_flux))) / S_flux)
        if cls != "ideal":
            rfd = np.asarray(lib("recovery_factor(density)", r.recovery_factor, density=True), float)
            errs["inplace"].append(float(np.max(np.abs(np.interp(t_s, t, rfd) - ref_inpl))) / S)
        ef = 0.0
        for ts in t_s:
            n = int(np.argmin(np.abs(t - ts)))
            want = (u_f + d * refs.fourier_field(x, t[n])) if cls != "pdep" else mol.field_at(x, t[n])
            ef = max(ef, float(np.max(np.abs(m[n] - want))) / d)
        errs["field"].append(ef)
    # ---- assertions ------------------------------------------------------------------------------------
    floor = 2e-4  # below this the reference's own accuracy (space O(1/N_REF^2), sampling) is comparable
    for name, const, oracle in (("flux", C_R, "C02/recovery-first-order"), ("inplace", C_R, "C02/inplace-recovery-first-order"), ("field", C_F, "C02/field-first-order")):
        e = errs[name]
        if not e:
            continue
        k = int(np.argmax([v * nx for v, nx in zip(e, nxs)]))
        res.check(oracle, e[k] * nxs[k], const, f"{name} error {e[k]!r} at nx={nxs[k]} (ladder {nxs}: errors {e}; p_f/p_i={ratio!r}, {cls});")
        worst_ratio, at = 0.0, None
        for a, b, nx in zip(e[:-1], e[1:], nxs[:-1]):
            if a > floor:
                if b / a > worst_ratio:
                    worst_ratio, at = b / a, nx
        if at is not None:
            res.check(f"C02/{name}-error-shrinks", worst_ratio, SHRINK_RATIO, f"{name} error goes {e} along nx={nxs}: ratio {worst_ratio!r} from nx={at} to {2 * at} (p_f/p_i={ratio!r}, {cls});")
    res.counts["rungs"] = len(nxs)
    res.nontrivial = len(nxs) >= 3 and nxs[-1] >= 40
    res.labels["top_nx"] = nxs[-1]
    return res
