"""C14 - Brooks-Corey relative permeabilities are finite, within [0, k_max] and monotone."""

from __future__ import annotations

import numpy as np
from hypothesis import strategies as st

from vf.core import LibRaised, Result, history_independent, lib

ID = "C14"
TITLE = "Brooks-Corey relative permeabilities are finite, within [0, k_max] and monotone"
LEVEL = "exploration"
BUDGET = {"quick": 9600, "thorough": 1000000}
SHRINK = {"quick": True, "thorough": True}
FUZZ = {"thorough": 6000}  # executions per atheris process (16 processes), after the Hypothesis search
RULE = (
    "Hypothesis draws a RelPermParams from the admissible box (exponents in [1,6] with integers and fractions, "
    "residuals each 0 with prob. 0.3 otherwise scaled so that their sum is < 1, end-points in [0,1] including "
    "0 and 1) and 1..30 saturation records on the simplex (interior points, phases below / exactly at their "
    "residual, phases above 1 - other residuals, vertices); plus invalid variants (one parameter pushed "
    "outside its range by 1e-9..10, saturation sums off by >= 2e-3) and the two-phase helper with Sw below, at "
    "and above S_wc. Non-trivial = a valid case with a fractional exponent or a non-zero residual and at "
    "least one record whose normalised saturation is < 0 or > 1 for some phase, or any invalid / two-phase "
    "case. Distinct = hash of the whole case record."
    " One valid case in four runs under np.errstate(invalid='raise', divide='raise')."
)
ASSUMPTIONS = [
    "relative permeability of a phase is a function of that phase's saturation only (documented Brooks-Corey "
    "formula), so monotonicity is checked between any two records ordered by that phase's saturation",
    "'rejected with an error' accepts any exception type",
    "saturation sums are called 'not summing to one' only when off by >= 2e-3 (the code documents a 1e-3 tolerance)",
]

PHASES = (("So", "S_or", "n_o", "k_ro_max", "kro"), ("Sw", "S_wc", "n_w", "k_rw_max", "krw"), ("Sg", "S_gc", "n_g", "k_rg_max", "krg"))
FIELDS = ("n_o", "n_w", "n_g", "S_or", "S_wc", "S_gc", "k_ro_max", "k_rw_max", "k_rg_max")

_unit = st.floats(0.0, 1.0, allow_nan=False)
_expo = st.one_of(
    st.sampled_from([1.0, 2.0, 3.0, 4.0, 6.0, 1.5, 2.5, 1.0 + 1e-9, 6.0 - 1e-9]),
    st.floats(1.0, 6.0, allow_nan=False),
)
_endp = st.one_of(st.sampled_from([0.0, 1.0, 0.5]), _unit)


@st.composite
def params_valid(draw):
    raw = [draw(st.one_of(st.just(0.0), st.just(0.0), st.floats(0.001, 1.0))) for _ in range(3)]
    # scale so that the sum of residuals is < 1 (construction, not rejection)
    total_target = draw(st.one_of(st.floats(0.0, 0.95), st.sampled_from([0.99, 0.999, 0.999999])))
    s = sum(raw)
    if s > 0:
        f = min(1.0, total_target / s)
        raw = [r * f for r in raw]
    p = {
        "n_o": draw(_expo), "n_w": draw(_expo), "n_g": draw(_expo),
        "S_or": raw[0], "S_wc": raw[1], "S_gc": raw[2],
        "k_ro_max": draw(_endp), "k_rw_max": draw(_endp), "k_rg_max": draw(_endp),
    }
    return p


@st.composite
def sat_record(draw, p):
    """One [So, Sw, Sg] with sum 1 (to rounding); aimed at the residual boundaries."""
    res = [p["S_or"], p["S_wc"], p["S_gc"]]
    kind = draw(st.sampled_from(["interior", "below", "at", "above", "vertex", "hair-above", "hair-below"]))
    i = draw(st.integers(0, 2))
    if kind == "vertex":
        s = [0.0, 0.0, 0.0]
        s[i] = 1.0
        return s
    if kind == "interior":
        a = draw(st.floats(0.0, 1.0))
        b = draw(st.floats(0.0, 1.0)) * (1.0 - a)
        s = [a, b, max(0.0, 1.0 - a - b)]
        k = draw(st.integers(0, 2))
        return s[k:] + s[:k]
    if kind in ("hair-above", "hair-below"):
        # a hair on either side of the residual: one ulp, 1e-12, 1e-9, 1e-6, 1e-4 away (tolerance bands would show)
        d = draw(st.sampled_from([0.0, 1e-12, 1e-9, 1e-6, 1e-4]))
        si = res[i] + d if kind == "hair-above" else res[i] - d
        if d == 0.0:
            import math

            si = math.nextafter(res[i], 2.0 if kind == "hair-above" else -1.0)
    elif kind == "below":
        si = res[i] * draw(_unit)
    elif kind == "at":
        si = res[i]
    else:  # above 1 - other residuals
        lo = 1.0 - (sum(res) - res[i])
        si = lo + (1.0 - lo) * draw(_unit)
    si = min(max(si, 0.0), 1.0)
    rest = 1.0 - si
    u = draw(_unit)
    j, k = [x for x in range(3) if x != i]
    s = [0.0, 0.0, 0.0]
    s[i] = si
    s[j] = rest * u
    s[k] = max(0.0, 1.0 - si - s[j])
    return s


@st.composite
def case_valid(draw):
    p = draw(params_valid())
    n = draw(st.integers(1, 30))
    sats = [draw(sat_record(p)) for _ in range(n)]
    return {
        "kind": "valid",
        "params": p,
        "sats": sats,
        "container": draw(st.sampled_from(["ndarray", "recarray"])),
        # the records are identified by field NAME: the order in which the fields are stored (So, Sg, Sw is the order of
        # the function's own docstring) and their float width must not matter
        "field_order": draw(st.sampled_from([[0, 1, 2], [0, 1, 2], [0, 2, 1], [1, 0, 2], [2, 1, 0], [1, 2, 0], [2, 0, 1]])),
        "rec_dtype": draw(st.sampled_from(["f8", "f8", "f8", "f8", "f4"])),
    }


@st.composite
def case_invalid_param(draw):
    c = draw(case_valid())
    name = draw(st.sampled_from(FIELDS))
    delta = draw(st.one_of(st.floats(1e-9, 1e-3), st.floats(1e-3, 10.0)))
    low = draw(st.booleans())
    lo_edge = 1.0 if name.startswith("n_") else 0.0
    hi_edge = 6.0 if name.startswith("n_") else 1.0
    c["params"][name] = (lo_edge - delta) if low else (hi_edge + delta)
    c["kind"] = "invalid-param"
    c["bad_field"] = name
    return c


@st.composite
def case_invalid_sat(draw):
    c = draw(case_valid())
    k = draw(st.integers(0, len(c["sats"]) - 1))
    off = draw(st.floats(2e-3, 1.0)) * draw(st.sampled_from([-1.0, 1.0]))
    j = draw(st.integers(0, 2))
    rec = list(c["sats"][k])
    rec[j] = rec[j] + off
    c["sats"][k] = rec
    c["kind"] = "invalid-sat"
    return c


@st.composite
def case_twophase(draw):
    p = draw(params_valid())
    mode = draw(st.sampled_from(["below", "at", "above"]))
    if mode == "below":
        sw = p["S_wc"] * draw(_unit)
    elif mode == "at":
        sw = p["S_wc"]
    else:
        sw = p["S_wc"] + draw(st.floats(1e-9, 1.0)) * (1.0 - p["S_wc"])
        if not sw > p["S_wc"]:
            sw = np.nextafter(p["S_wc"], 2.0)
    return {"kind": "twophase" if mode != "above" else "twophase-reject", "params": p, "Sw": float(sw)}


def strategy(tier):
    return st.one_of(case_valid(), case_valid(), case_valid(), case_invalid_param(), case_invalid_sat(), case_twophase())


# --------------------------------------------------------------------------------------------------


def _records(sats, container, field_order=(0, 1, 2), rec_dtype="f8"):
    names = ("So", "Sw", "Sg")
    order = [names[i] for i in field_order]
    arr = np.zeros(len(sats), dtype=[(nm, rec_dtype) for nm in order])
    for j, nm in enumerate(names):
        arr[nm] = [s[j] for s in sats]
    if container == "recarray":
        import pandas as pd

        return pd.DataFrame({nm: arr[nm] for nm in order}).to_records(index=False)
    return arr


def _check_values(res, p, So, Sw, Sg, kr, tag, rel=1e-12, tiny=0.0):
    """Range / zero-below-residual / monotone oracles on arrays of saturations and permeabilities."""
    sat = {"So": np.asarray(So, float), "Sw": np.asarray(Sw, float), "Sg": np.asarray(Sg, float)}
    for sname, rname, _nname, kname, col in PHASES:
        k = np.asarray(kr[col], float)
        s = sat[sname]
        kmax = p[kname]
        if not np.all(np.isfinite(k)):
            i = int(np.flatnonzero(~np.isfinite(k))[0])
            res.bad(f"C14/finite{tag}", f"{col}={k[i]} at {sname}={s[i]!r} residual={p[rname]!r} params={p}")
            continue
        if np.any(k < 0) or np.any(k > kmax * (1 + rel) + tiny):
            i = int(np.flatnonzero((k < 0) | (k > kmax * (1 + rel) + tiny))[0])
            res.bad(f"C14/range{tag}", f"{col}={k[i]!r} outside [0, {kmax!r}] at {sname}={s[i]!r}")
        below = s <= p[rname]
        if np.any(k[below] != 0):
            i = int(np.flatnonzero(below & (k != 0))[0])
            res.bad(f"C14/zero-below-residual{tag}", f"{col}={k[i]!r} at {sname}={s[i]!r} <= {rname}={p[rname]!r}")
        order = np.argsort(s, kind="stable")
        ks = k[order]
        drop = ks[:-1] - ks[1:]
        if drop.size and np.any(drop > rel * max(kmax, 1e-300) + tiny):
            i = int(np.argmax(drop))
            res.bad(
                f"C14/monotone{tag}",
                f"{col} falls from {ks[i]!r} to {ks[i + 1]!r} while {sname} rises {s[order][i]!r} -> {s[order][i + 1]!r}",
            )


def check_case(case) -> Result:
    from bluebonnet.flow import RelPermParams, relative_permeabilities, relative_permeabilities_twophase

    res = Result()
    p = case["params"]
    params = RelPermParams(**p)
    kind = case["kind"]
    res.labels["kind"] = kind
    frac = any(float(p[n]) != int(p[n]) for n in ("n_o", "n_w", "n_g"))
    nonzero_res = any(p[n] > 0 for n in ("S_or", "S_wc", "S_gc"))
    res.labels["fractional_exponent"] = frac
    res.labels["nonzero_residual"] = nonzero_res

    if kind in ("valid", "invalid-param", "invalid-sat"):
        recs = _records(case["sats"], case["container"], case.get("field_order", (0, 1, 2)), case.get("rec_dtype", "f8"))
        res.labels["field_order"] = "".join("owg"[i] for i in case.get("field_order", (0, 1, 2)))
        res.labels["rec_dtype"] = case.get("rec_dtype", "f8")
        if kind == "valid":
            # one valid case in four runs with NumPy's floating-point errors escalated (np.errstate(invalid, divide =
            # "raise"), as numerical codes do while debugging): admissible inputs must not need an invalid operation
            strict = len(case["sats"]) % 4 == 1
            res.labels["errstate"] = "invalid/divide raise" if strict else "default"
            with np.errstate(invalid="raise" if strict else "warn", divide="raise" if strict else "warn"):
                kr = lib("relative_permeabilities", relative_permeabilities, recs, params)
            if getattr(kr, "shape", None) != (len(case["sats"]),):
                res.bad("C14/shape", f"result shape {getattr(kr, 'shape', None)} for {len(case['sats'])} records")
                return res
            # single-precision records: the end point itself is rounded to float32 (4 eps32 relative)
            # the result for these parameters does not depend on which other parameter sets were evaluated before
            other = dict(p, n_o=min(6.0, p["n_o"] + 0.5), k_ro_max=p["k_ro_max"] * 0.5, S_or=p["S_or"] * 0.5)

            def _call(par):
                k_ = relative_permeabilities(recs, RelPermParams(**par))
                return np.array([k_["kro"], k_["krw"], k_["krg"]], float)

            lib("relative_permeabilities", history_independent, res, "C14/independent-of-call-history", _call, (p,), [(other,), (dict(p, n_g=1.0, S_gc=0.0),)], "relative_permeabilities")
            _check_values(res, p, recs["So"], recs["Sw"], recs["Sg"], kr, "", rel=1e-12 if case.get("rec_dtype", "f8") == "f8" else 5e-7, tiny=0.0 if case.get("rec_dtype", "f8") == "f8" else 1e-37)
            denom = 1 - p["S_or"] - p["S_wc"] - p["S_gc"]
            norm = np.array(
                [[(s[0] - p["S_or"]) / denom, (s[1] - p["S_wc"]) / denom, (s[2] - p["S_gc"]) / denom] for s in case["sats"]]
            )
            outside = bool(np.any(norm < 0) or np.any(norm > 1))
            res.labels["has_record_outside_unit_normalised_range"] = outside
            res.nontrivial = (frac or nonzero_res) and outside
        else:
            try:
                out = relative_permeabilities(recs, params)
            except Exception:  # noqa: BLE001 - any error counts as rejection
                res.nontrivial = True
                try:  # ... and it must stay rejected when the same input is given again
                    out = relative_permeabilities(recs, params)
                except Exception:  # noqa: BLE001
                    return res
                res.bad("C14/rejects-invalid", f"input rejected on the first call but accepted on the second ({kind}, params={p})")
                return res
            what = f"parameter {case.get('bad_field')}={p.get(case.get('bad_field'))!r}" if kind == "invalid-param" else "saturation record not summing to 1"
            res.bad("C14/rejects-invalid", f"{what} accepted; returned {np.asarray(out)[:2]}")
    elif kind == "twophase":
        strict = int(round(case["Sw"] * 1000)) % 4 == 1
        res.labels["errstate"] = "invalid/divide raise" if strict else "default"
        with np.errstate(invalid="raise" if strict else "warn", divide="raise" if strict else "warn"):
            df = lib("relative_permeabilities_twophase", relative_permeabilities_twophase, params, case["Sw"])
        cols = set(getattr(df, "columns", []))
        need = {"So", "Sw", "Sg", "kro", "krw", "krg"}
        if not need <= cols:
            res.bad("C14/twophase-columns", f"missing columns {sorted(need - cols)}")
            return res
        tot = np.asarray(df["So"] + df["Sw"] + df["Sg"], float)
        if np.any(np.abs(tot - 1) > 1e-12):
            res.bad("C14/twophase-sum", f"saturations sum to {tot[np.argmax(np.abs(tot - 1))]!r}")
        if np.any(np.asarray(df["krw"], float) != 0):
            res.bad("C14/twophase-immobile-water", f"krw max {np.max(np.asarray(df['krw'], float))!r} with Sw={case['Sw']!r} <= S_wc={p['S_wc']!r}")
        if np.any(np.asarray(df["Sw"], float) != case["Sw"]):
            res.bad("C14/twophase-sum", "Sw column is not the requested water saturation")
        _check_values(res, p, df["So"], df["Sw"], df["Sg"], df, "-twophase")
        res.nontrivial = True
    elif kind == "twophase-reject":
        try:
            relative_permeabilities_twophase(params, case["Sw"])
        except Exception:  # noqa: BLE001
            res.nontrivial = True
            return res
        res.bad("C14/twophase-rejects", f"Sw={case['Sw']!r} > S_wc={p['S_wc']!r} accepted")
    return res
