"""C18 - Pressure-history fit uses the library's forward model and honours its limits."""

from __future__ import annotations

import functools

import numpy as np
from hypothesis import strategies as st

from vf import tables
from vf.core import Result, lib

ID = "C18"
TITLE = "Pressure-history fit uses the library's forward model and honours its limits"
LEVEL = "exploration"
BUDGET = {"quick": 960, "thorough": 100000}
SHRINK = {"quick": False, "thorough": True}
TIME_LIMIT = {"quick": 150, "thorough": 3300}
RULE = (
    "Hypothesis draws generating parameters (tau 30..600 days, M 10..1e6, p_initial 3000..12000 psia), a frac-face "
    "schedule below p_initial (2..4 levels between 0.4 % and 95 % of p_initial, i.e. down to ~11 psi, optionally with multiplicative noise), the unit of every pressure involved (psi, MPa, bar, Pa: table, record and limits converted together), 40..150 days, a PVT table "
    "(shipped Haynesville or gas table), zero-rate days, missing pressures, the filter flag (unfiltered only without "
    "missing pressures), a smoothing window in {None,1,3,7}, an iteration budget 2..12, pressure_imax up to the table "
    "maximum and inplace_max above the cumulative production. 'objective' cases evaluate the fitting objective at "
    "generated (tau, M, p_initial) - including the generating ones - against the harness's own call of the "
    "library's 80-node variable-pressure simulation; 'fit' cases run fit_production_pressure with the objective "
    "wrapped so that every evaluation is observed. Non-trivial = a schedule with >= 2 levels and (for fits) at "
    "least one filtered row or a window. Production tables carry further columns (an integer one; in half of the filtered "
    "cases a water column with gaps on producing days, in a quarter also a comment column of strings / None). "
    "Distinct = hash of the case record."
)
ASSUMPTIONS = [
    "the harness re-simulates with the node count the objective is observed to use (80 on this tree; the fitting module's reservoir class is wrapped for one probe evaluation per case): a finer model is accepted, a coarser one than the anchored 80 nodes is a violation",
    "the forward model is SinglePhaseReservoir with 80 nodes on FlowProperties(table, p_initial), simulated on days/tau with the frac-face schedule (the anchored mechanism); comparison to rounding level (1e-10 M)",
    "limits: 30 <= tau <= 2 (n_rows - 1), cumulative production before the last row <= M <= inplace_max, max frac-face pressure <= p_initial <= pressure_imax",
    "an unfiltered table with a missing pressure is outside what the function accepts (not generated)",
]
LEVEL_TEXT = (
    "Differential test of the fitting objective against the library's own forward simulation at generated "
    "parameter values, bound containment observed at every objective evaluation through a harness-side wrapper, "
    "row-filter accounting and the window=1 identity. Exploration."
)


@functools.lru_cache(maxsize=4)
def pvt(name, p_unit=1.0):
    import pandas as pd

    return pd.DataFrame(tables.build({"family": "shipped", "name": name, "thin": 1, "p_unit": p_unit}))


@st.composite
def strategy_(draw):
    n = draw(st.integers(40, 150))
    k = draw(st.integers(2, 4))
    c = {
        "kind": draw(st.sampled_from(["objective", "objective", "fit"])),
        "table": draw(st.sampled_from(["hay", "gas"])),
        "n": n,
        "tau": draw(st.floats(30.0, 600.0)),
        "M": 10.0 ** draw(st.floats(1.0, 6.0)),
        "p_i": draw(st.floats(3000.0, 11500.0)),
        # frac-face pressure as a fraction of initial pressure: down to a few psi above the table's first row (a well
        # on compression / a low-pressure reservoir), not only the hundreds of psi of the examples
        "levels": [draw(st.one_of(st.floats(0.05, 0.95), st.floats(0.004, 0.95))) for _ in range(k)],
        # unit of every pressure involved (table, production record, limits): psi, MPa, bar, Pa
        "p_unit": draw(st.sampled_from([1.0, 1.0, 1.0, 6.894757e-3, 0.06894757, 6894.757])),
        "breaks": sorted(draw(st.floats(0.05, 0.95)) for _ in range(k - 1)),
        "noise": draw(st.sampled_from([0.0, 0.0, 0.02])),
        "seed": draw(st.integers(0, 10**6)),
        "eval": {"tau": draw(st.floats(0.2, 5.0)), "M": draw(st.floats(0.1, 10.0)), "p_i": draw(st.floats(0.0, 1.0))},
    }
    if c["kind"] == "fit":
        c["zero_days"] = sorted(set(draw(st.lists(st.integers(0, n - 1), max_size=6))))
        c["nan_days"] = sorted(set(draw(st.lists(st.integers(0, n - 1), max_size=4))))
        c["filter"] = draw(st.booleans())
        c["window"] = draw(st.sampled_from([None, None, 1, 3, 7]))
        c["n_iter"] = draw(st.integers(2, 12))
        c["imax_frac"] = draw(st.floats(0.0, 1.0))
        c["inplace_factor"] = draw(st.floats(1.05, 50.0))
        c["guess_frac"] = draw(st.floats(0.0, 1.0))
        # row labels of the production table: what pandas gives for monthly files joined without ignore_index
        # (repeated labels), a shifted range, or dates
        c["index"] = draw(st.sampled_from(["range", "range", "repeated", "offset", "dates"]))
        c["index_period"] = draw(st.integers(5, 40))
        # production records as they come from a daily report: whole-number volumes and pressures in integer columns
        c["int_columns"] = draw(st.integers(0, 3)) == 0
        # the Days column counts calendar days (gaps on days without a report) or is not sorted - it is documented as
        # informational when filtering re-indexes the productive days
        c["days_column"] = draw(st.sampled_from(["0..n-1", "0..n-1", "gapped", "offset"]))
        # production exports carry more than the three documented columns (water, oil, comments), often with gaps on
        # days that do have gas and pressure: such rows stay in the fit
        c["extra_columns"] = draw(st.sampled_from(["int", "int", "nan-gaps", "strings-and-nan"]))
    return c


def strategy(tier):
    return strategy_()


def schedule(c):
    n = c["n"]
    edges = [0] + [int(round(b * n)) for b in c["breaks"]] + [n]
    pf = np.empty(n)
    for lv, a, b in zip(c["levels"], edges[:-1], edges[1:]):
        pf[a:b] = lv * c["p_i"]
    if c["noise"]:
        rng = np.random.default_rng(c["seed"])
        pf = pf * np.exp(c["noise"] * rng.standard_normal(n))
    return np.clip(pf, 11.0, 0.97 * c["p_i"])


NX_ANCHORED = 80  # the objective's single-phase model has 80 nodes (anchored mechanism of the property)
_NX = {"observed": None}


def observe_nx(FP, call):
    """Run `call()` while recording the node count of every reservoir the fitting module builds.

    The statement speaks of "the library's own variable-pressure simulation"; its resolution is an anchored
    mechanism (80 nodes), not part of the statement.  The harness therefore re-simulates with the node count the
    objective actually used - a finer model must not raise an alarm - and reports a coarser one as a violation."""
    cls = getattr(FP, "SinglePhaseReservoir", None)
    if cls is None or not isinstance(cls, type):
        return call()
    seen = []

    class Recording(cls):
        def __init__(self, nx, *a, **k):
            seen.append(int(nx))
            super().__init__(nx, *a, **k)

    Recording.__name__ = cls.__name__
    Recording.__qualname__ = cls.__qualname__
    FP.SinglePhaseReservoir = Recording
    try:
        return call()
    finally:
        FP.SinglePhaseReservoir = cls
        if seen:
            _NX["observed"] = seen[0] if len(set(seen)) == 1 else min(seen)


def forward(table, days, tau, p_i, pf):
    """The library's own variable-pressure simulation, called by the harness."""
    from bluebonnet.flow import FlowProperties, SinglePhaseReservoir

    nx = _NX["observed"] if _NX["observed"] and _NX["observed"] >= NX_ANCHORED else NX_ANCHORED
    r = SinglePhaseReservoir(nx, p_i, p_i, FlowProperties(table, p_i))
    r.simulate(days / tau, pressure_fracface=pf)
    return np.asarray(r.recovery_factor(), float)


def check_case(case) -> Result:
    import pandas as pd
    from lmfit import Parameters

    from bluebonnet.forecast import fit_production_pressure
    from bluebonnet.forecast import forecast_pressure as FP

    res = Result()
    res.labels["kind"] = case["kind"]
    res.labels["table"] = case["table"]
    unit = float(case.get("p_unit", 1.0))
    res.labels["p_unit"] = str(unit)
    table = pvt(case["table"], unit)
    n, tau, M, p_i = case["n"], case["tau"], case["M"], case["p_i"]
    p_i = min(p_i, float(table["pressure"].iloc[-1]) / unit * 0.95)
    c = dict(case, p_i=p_i)
    pf = schedule(c) * unit  # generated in psi, handed over in the case's unit like the table
    p_i = p_i * unit
    res.labels["fracface_below_14.7"] = bool(np.min(pf) < 14.7)
    days = np.arange(n, dtype=float)
    _NX["observed"] = None
    probe = Parameters()
    probe.add("tau", value=tau)
    probe.add("M", value=M)
    probe.add("p_initial", value=p_i)
    lib("_obj_function", observe_nx, FP, lambda: FP._obj_function(probe, days[:3], np.zeros(3), table, pf[:3]))
    res.labels["objective_nx"] = str(_NX["observed"])
    if _NX["observed"] is not None and _NX["observed"] < NX_ANCHORED:
        res.bad("C18/objective-is-forward-model-minus-production", f"the objective simulates with {_NX['observed']} nodes, coarser than the {NX_ANCHORED}-node model the fit is documented to use")
        return res
    rf = lib("forward simulation", forward, table, days, tau, p_i, pf)
    cum = M * rf
    levels = len(set(np.round(pf, 6)))

    if case["kind"] == "objective":
        def params(t, m, p):
            P = Parameters()
            P.add("tau", value=t)
            P.add("M", value=m)
            P.add("p_initial", value=p)
            return P

        out = np.asarray(lib("_obj_function", FP._obj_function, params(tau, M, p_i), days, cum, table, pf), float)
        res.check("C18/objective-zero-at-generating-parameters", float(np.max(np.abs(out))), 1e-12 * M, f"objective at the generating parameters (tau={tau!r}, M={M!r}, p_i={p_i!r}, {n} days, {levels} pressure levels);")
        e = case["eval"]
        t2, m2 = tau * e["tau"], M * e["M"]
        p2 = float(np.max(pf)) + e["p_i"] * (float(table["pressure"].iloc[-1]) * 0.99 - float(np.max(pf)))
        out2 = np.asarray(lib("_obj_function", FP._obj_function, params(t2, m2, p2), days, cum, table, pf), float)
        want = m2 * lib("forward simulation", forward, table, days, t2, p2, pf) - cum
        # equal up to rounding: the objective may form days/tau, M*rf in another order than the harness does
        if out2.shape != want.shape or not np.allclose(out2, want, rtol=0, atol=1e-10 * m2 + 1e-12 * float(np.max(np.abs(cum)))):
            k = int(np.argmax(np.abs(out2 - want))) if out2.shape == want.shape else 0
            res.bad("C18/objective-is-forward-model-minus-production", f"objective at (tau={t2!r}, M={m2!r}, p_initial={p2!r}) differs from M*recovery - production: element {k}: {out2[k] if out2.shape == want.shape else out2.shape!r} vs {want[k]!r}")
        res.nontrivial = levels >= 2
        return res

    # ---- fit ----------------------------------------------------------------------------------------------
    gas = np.diff(cum, prepend=0.0)
    gas = np.maximum(gas, 1e-9 * M)  # strictly productive days, except those zeroed below
    gas[case["zero_days"]] = 0.0
    pres = pf.copy()
    if case["filter"]:
        pres[case["nan_days"]] = np.nan
    gas_col, pres_col = gas, pres
    res.labels["int_columns"] = False
    if case.get("int_columns") and float(np.max(gas)) >= 50.0 and not np.any(np.isnan(pres)) and float(np.min(pres)) >= 100.0:
        gas = np.where(gas > 0, np.maximum(1.0, np.rint(gas)), 0.0)
        pres = np.rint(pres)
        gas_col, pres_col = gas.astype(np.int64), pres.astype(np.int64)
        if case["window"] not in (None, 1):
            # a boxcar average of an integer column is computed by SciPy in integer arithmetic (truncated); the
            # property does not say how the average is rounded, so integer pressures are only used unsmoothed
            pres_col = pres.astype(float)
        res.labels["int_columns"] = True
    days_col = days
    if case["filter"] and case.get("days_column") == "gapped":
        days_col = days + np.cumsum(np.arange(n) % 7 == 3)  # a calendar with missing report days
    elif case["filter"] and case.get("days_column") == "offset":
        days_col = days + 400.0
    res.labels["days_column"] = case.get("days_column", "0..n-1") if case["filter"] else "0..n-1"
    prod = pd.DataFrame({"Days": days_col, "Gas": gas_col, "Pressure": pres_col, "Other": np.arange(n)})
    extra = case.get("extra_columns", "int")
    if extra in ("nan-gaps", "strings-and-nan"):
        water = np.where(np.arange(n) % 3 == 1, np.nan, 1.0 + np.arange(n) % 5)
        prod.insert(0, "Water", water)  # not reported on every third day
        if extra == "strings-and-nan":
            prod["Comment"] = [None if k % 4 else "shut in for workover" for k in range(n)]
    res.labels["extra_columns"] = extra
    kind = case.get("index", "range")
    if kind == "repeated":
        prod.index = np.arange(n) % case["index_period"]
    elif kind == "offset":
        prod.index = np.arange(n) + 1000
    elif kind == "dates":
        prod.index = pd.date_range("2020-01-01", periods=n, freq="D")
    res.labels["index"] = kind
    keep = (gas > 0) & ~np.isnan(pres) if case["filter"] else np.ones(n, bool)
    nk = int(keep.sum())
    if nk < 20:
        res.skipped = "fewer than 20 rows left"
        return res
    pf_used = pres[keep]
    if case["window"] is not None:
        import scipy.ndimage

        pf_used = scipy.ndimage.uniform_filter1d(pf_used, size=case["window"])
    cum_used = np.cumsum(gas[keep])
    tab_max = float(table["pressure"].iloc[-1])
    pmax_f = float(np.max(pf_used))
    imax = pmax_f * 1.02 + case["imax_frac"] * (tab_max - pmax_f * 1.02)
    guess = pmax_f * 1.01 + case["guess_frac"] * (imax - pmax_f * 1.01)
    inplace_max = float(cum_used[-1]) * case["inplace_factor"]
    calls = []
    orig = FP._obj_function

    pf_seen = []

    def spy(params, *a):
        calls.append((params["tau"].value, params["M"].value, params["p_initial"].value))
        if not pf_seen:
            pf_seen.append(np.array(a[3], float, copy=True))
        return orig(params, *a)

    FP._obj_function = spy
    try:
        out = lib("fit_production_pressure", fit_production_pressure, prod.copy(), table, guess, filter_window_size=case["window"], pressure_imax=imax, inplace_max=inplace_max, filter_zero_prod_days=case["filter"], n_iter=case["n_iter"])
    finally:
        FP._obj_function = orig
    lim = {"tau": (30.0, 2.0 * (nk - 1)), "M": (float(cum_used[-2]), inplace_max), "p_initial": (pmax_f, imax)}
    seen = calls + [(out.params["tau"].value, out.params["M"].value, out.params["p_initial"].value)]
    for i, (t_, m_, p_) in enumerate(seen):
        for name, v in (("tau", t_), ("M", m_), ("p_initial", p_)):
            lo, hi = lim[name]
            if not (lo * (1 - 1e-12) <= v <= hi * (1 + 1e-12)):
                where = "fitted result" if i == len(seen) - 1 else f"objective evaluation {i}"
                res.bad("C18/parameters-within-limits", f"{where}: {name}={v!r} outside [{lo!r}, {hi!r}]")
                break
        if res.violations:
            break
    res.counts["objective_evaluations_observed"] = len(calls)

    def declared(par, tag):
        """The limits declared on the returned parameters are the documented ones."""
        for name in ("tau", "M", "p_initial"):
            lo, hi = lim[name]
            q = par[name]
            if not (abs(q.min - lo) <= 1e-9 * max(abs(lo), 1.0) and abs(q.max - hi) <= 1e-9 * max(abs(hi), 1.0)):
                res.bad("C18/parameters-within-limits", f"{tag}: declared limits of {name} are [{q.min!r}, {q.max!r}], expected [{lo!r}, {hi!r}]")
                return

    declared(out.params, "first fit")
    if case.get("continue_fit", True) and not res.violations:
        # documented usage: "You can pass in results from previous fit" - the same data, so the same limits
        calls2 = []

        def spy2(params, *a):
            calls2.append((params["tau"].value, params["M"].value, params["p_initial"].value))
            return orig(params, *a)

        FP._obj_function = spy2
        try:
            out2 = lib("fit_production_pressure(params=previous)", fit_production_pressure, prod.copy(), table, guess, filter_window_size=case["window"], pressure_imax=imax, inplace_max=inplace_max, filter_zero_prod_days=case["filter"], n_iter=max(2, case["n_iter"] // 2), params=out.params)
        finally:
            FP._obj_function = orig
        declared(out2.params, "continued fit (params = previous result)")
        for i, (t_, m_, p_) in enumerate(calls2 + [(out2.params["tau"].value, out2.params["M"].value, out2.params["p_initial"].value)]):
            for name, v in (("tau", t_), ("M", m_), ("p_initial", p_)):
                lo, hi = lim[name]
                if not (lo * (1 - 1e-12) <= v <= hi * (1 + 1e-12)):
                    res.bad("C18/parameters-within-limits", f"continued fit, evaluation {i}: {name}={v!r} outside [{lo!r}, {hi!r}]")
                    break
            if res.violations:
                break
        res.counts["continued_fits"] = 1
    if out.ndata != nk:
        res.bad("C18/rows-excluded-when-filtering", f"fit used {out.ndata} rows, expected {nk} (filter={case['filter']}, {n} rows, {len(case['zero_days'])} zero-rate, {len(case['nan_days']) if case['filter'] else 0} missing pressure)")
    # the fit's own residual is the objective at the fitted parameters on the filtered, re-indexed, smoothed data
    P = out.params
    want = P["M"].value * lib("forward simulation", forward, table, np.arange(nk, dtype=float), P["tau"].value, P["p_initial"].value, pf_used) - cum_used
    r_out = np.asarray(out.residual, float)
    if r_out.shape != want.shape or not np.allclose(r_out, want, rtol=1e-10, atol=1e-10 * M):
        res.bad("C18/objective-is-forward-model-minus-production", f"residual of the fit differs from M*recovery - cumulative production on the filtered rows (max diff {float(np.max(np.abs(r_out - want))) if r_out.shape == want.shape else 'shape'})")
    if pf_seen:
        # the frac-face pressures handed to the objective: filtered rows, smoothed with the requested window
        # (a window of one sample is the identity up to the rounding of SciPy's running-sum filter)
        got = pf_seen[0]
        if got.shape != pf_used.shape or not np.allclose(got, pf_used, rtol=1e-12, atol=0):
            what = "window-of-one-leaves-pressures-unchanged" if case["window"] == 1 else "pressures-filtered-and-smoothed-as-requested"
            res.bad(f"C18/{what}", f"frac-face pressures given to the objective differ from the expected ones (window={case['window']}, filter={case['filter']}): max diff {float(np.max(np.abs(got - pf_used))) if got.shape == pf_used.shape else 'shape'}")
        if case["window"] == 1 and got.shape == pres[keep].shape:
            res.check("C18/window-of-one-leaves-pressures-unchanged", float(np.max(np.abs(got - pres[keep]) / pres[keep])), 1e-12, "pressures after a one-sample window vs the raw pressures;")
    res.nontrivial = bool(levels >= 2 and (nk < n or case["window"] is not None))
    res.labels["filter"] = case["filter"]
    res.labels["window"] = str(case["window"])
    res.labels["rows_filtered"] = n - nk
    return res
