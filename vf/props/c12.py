"""C12 - Black-oil correlations are continuous and correctly ordered at the bubble point."""

from __future__ import annotations

import math

import numpy as np
from hypothesis import strategies as st

from vf import forms, gens
from vf.core import Result, history_independent, lib

ID = "C12"
TITLE = "Black-oil correlations are continuous and correctly ordered at the bubble point"
LEVEL = "exploration"
BUDGET = {"quick": 12000, "thorough": 1500000}
SHRINK = {"quick": True, "thorough": True}
RULE = (
    "Hypothesis draws an oil (T 80..350 F, API 12..55, gas gravity 0.56..1.3, initial GOR log-uniform 20..2500 "
    "scf/bbl, constructed so that the Standing bubble point exceeds 50 psia) and 2..14 pressures in "
    "[15, 2.5 p_b] that always include p_b itself, p_b(1 +- 1e-9), the float neighbours of p_b, and points on "
    "both sides; the ordering and inverse relations are checked on scalar calls and again through the array "
    "branches on a float64 grid, on an integer grid of whole psi and on a float32 grid (float32-level tolerances; Bo must "
    "rise below and fall above p_b there too); one oil in four has its temperature, API and GOR given as Python ints, "
    "one in three has all four parameters as numpy float64 scalars (as read from an array or DataFrame row); the "
    "scalar-only Standing undersaturated compressibility is required positive up to 15000 psi above p_b. Non-trivial = the sorted sample has at least two pressures strictly below and two at/above "
    "p_b (so that every ordering oracle has something to compare). Distinct = hash of the case record."
)
ASSUMPTIONS = [
    "continuity is decided as |f(p_b(1+-1e-9)) - f(p_b)| <= 1e-7 |f(p_b)| (a jump of the correlations would be >= 1e-4 relative)",
    "monotonicity tolerances are 1e-12 relative (rounding level)",
    "the inverse relation is p_b(R_s(p)) = p to 1e-10 relative",
]
LEVEL_TEXT = (
    "Generated oils and pressure samples aimed at the bubble point (p_b itself, its float neighbours, both "
    "sides); continuity, ordering and inverse relations are checked on scalar calls of the library. Finds a "
    "flipped comparison or a branch using the wrong GOR on the explored oils; cannot prove them for all oils."
)


@st.composite
def strategy_(draw):
    oil = draw(gens.oil_params())
    n = draw(st.integers(0, 10))
    fr = [draw(st.one_of(st.floats(0.0, 1.0), st.floats(0.9, 1.1).map(lambda x: x / 2.5))) for _ in range(n)]
    return {"oil": oil, "fractions": fr, "p_form": draw(forms.scalar_form())}


def strategy(tier):
    return strategy_()


def check_case(case) -> Result:
    from bluebonnet.fluids import oil as O

    res = Result()
    o = case["oil"]
    T, api, sg, gor = gens.oil_tuple(o)
    pb = lib("pressure_bubblepoint_Standing", O.pressure_bubblepoint_Standing, T, api, sg, gor)
    if not (np.isfinite(pb) and pb > 50):
        res.skipped = "bubble point <= 50 psia (outside the property's domain)"
        return res
    funcs = {
        "Rs": lambda p: O.solution_gor_Standing(T, p, api, sg, gor),
        "Bo": lambda p: O.b_o_Standing(T, p, api, sg, gor),
        "rho_o": lambda p: O.density_Standing(T, p, api, sg, gor),
        "mu_o": lambda p: O.viscosity_beggs_robinson(T, p, api, sg, gor),
    }
    # ---- continuity at the bubble point ---------------------------------------------------------
    near = [pb * (1 - 1e-9), float(np.nextafter(pb, 0.0)), pb, float(np.nextafter(pb, 1e9)), pb * (1 + 1e-9)]
    for name, f in funcs.items():
        vals = [float(lib(name, f, p)) for p in near]
        if not all(math.isfinite(v) for v in vals):
            res.bad("C12/finite", f"{name} not finite near p_b={pb!r}: {vals} oil={o}")
            continue
        at = vals[2]
        jump = max(abs(v - at) for v in vals)
        res.check("C12/continuous-at-bubble-point", jump, 1e-7 * abs(at), f"{name} near p_b={pb!r} values={vals} oil={o};")
    # ---- sample of pressures ----------------------------------------------------------------------
    # ... plus pressures at relative distances 1e-2 .. 1e-8 on either side of the bubble point (a tolerance band around
    # p_b - np.isclose, a fixed psi window - would show as a flat or wrong stretch there)
    band = {pb * (1 - 10.0**-k) for k in (2, 3, 4, 5, 6, 8)} | {pb * (1 + 10.0**-k) for k in (2, 4, 6, 8)} | {pb - 0.5, pb - 3.0, pb + 0.5}
    ps = sorted({15.0 + f * (2.5 * pb - 15.0) for f in case["fractions"]} | {pb, 0.5 * pb, 0.9 * pb, 1.5 * pb, 2.5 * pb, 15.0} | band)
    ps = [p for p in ps if 15.0 <= p <= 2.5 * pb]
    # the scalar calls below receive each pressure in the generated form (Python / numpy scalar of either kind, 0-d
    # array); integer forms carry whole-number pressures, float32 its own rounding
    form = case.get("p_form", "float")
    if form != "float":
        ps = sorted({forms.representable(p, form) for p in ps if forms.representable(p, form) >= 15.0})
    res.labels["p_form"] = form
    frel = forms.rel(form, 1e-12, 2e-6)
    sc = lambda q: forms.scalar(q, form)  # noqa: E731
    below = [p for p in ps if p < pb]
    above = [p for p in ps if p >= pb]
    res.nontrivial = len(below) >= 2 and len(above) >= 2
    res.labels["n_below"] = min(len(below), 5)
    res.labels["n_above"] = min(len(above), 5)
    res.labels["pb_decade"] = int(math.floor(math.log10(pb)))
    rs = [float(lib("Rs", funcs["Rs"], sc(p))) for p in ps]
    bo = [float(lib("Bo", funcs["Bo"], sc(p))) for p in ps]
    mu = [float(lib("mu_o", funcs["mu_o"], sc(p))) for p in ps]
    rho = [float(lib("rho_o", funcs["rho_o"], sc(p))) for p in ps]
    co = [float(lib("c_o Spivey", O.oil_compressibility_undersat_Spivey, T, sc(p), api, sg, gor)) for p in above]
    for name, v in (("Rs", rs), ("Bo", bo), ("mu_o", mu), ("rho_o", rho), ("c_o", co)):
        if not all(math.isfinite(x) for x in v):
            res.bad("C12/finite", f"{name} not finite on {ps}: {v} oil={o}")
            return res
    # GOR: non-decreasing, == Rsi at/above, inverse of the bubble-point correlation below
    for (p0, r0), (p1, r1) in zip(zip(ps, rs), zip(ps[1:], rs[1:])):
        res.check("C12/gor-non-decreasing", max(0.0, r0 - r1), frel * gor, f"Rs({p0!r})={r0!r} > Rs({p1!r})={r1!r} oil={o} (pressures as {form});")
    for p, r in zip(ps, rs):
        if p >= pb:
            if r != gor:
                res.bad("C12/gor-equals-initial-above", f"Rs({p!r})={r!r} != Rsi={gor!r} at/above p_b={pb!r}")
        else:
            back = float(lib("pressure_bubblepoint_Standing", O.pressure_bubblepoint_Standing, T, api, sg, r))
            res.check("C12/gor-inverts-bubble-point", abs(back - p), max(1e-10, 10 * frel if form == "np.float32" else 0.0) * p, f"p_b(Rs(p))={back!r} for p={p!r} oil={o} (pressure as {form});")
    # FVF rises below, falls above; viscosity falls below (strictly, once the two pressures are 1e-6 p_b apart)
    def ordered(oracle, what, lo_val, hi_val, p0, p1, scale):
        """Assert lo_val < hi_val (strict when the pressures are well separated, else up to rounding)."""
        if p1 - p0 > (1e-6 if form != "np.float32" else 1e-3) * pb:
            if not lo_val < hi_val:
                res.bad(oracle, f"{what}: values {lo_val!r} -> {hi_val!r} for p {p0!r} -> {p1!r}, p_b={pb!r} oil={o}")
        else:
            res.check(oracle, max(0.0, lo_val - hi_val), frel * scale, f"{what} p {p0!r} -> {p1!r} oil={o};")

    for k in range(len(ps) - 1):
        p0, p1 = ps[k], ps[k + 1]
        if p1 <= pb:
            ordered("C12/fvf-rises-below", "Bo must rise with pressure below p_b", bo[k], bo[k + 1], p0, p1, bo[k])
            ordered("C12/viscosity-falls-below", "mu_o must fall with pressure below p_b", mu[k + 1], mu[k], p0, p1, mu[k])
            ordered("C12/gor-rises-below", "Rs must rise with pressure below p_b", rs[k], rs[k + 1], p0, p1, gor)
        elif p0 >= pb:
            ordered("C12/fvf-falls-above", "Bo must fall with pressure above p_b", bo[k + 1], bo[k], p0, p1, bo[k])
    # ---- the same relations through the array branches (float64 grid and an integer grid of whole psi) --------
    grids = []
    f32 = np.unique(np.array(ps, np.float32))
    for label, arr, arel in (
        ("float64 array", np.array(ps, float), 1e-12),
        ("int64 array", np.unique(np.array([int(round(q)) for q in ps if q >= 15.5], dtype=np.int64)), 1e-12),
        # single-precision pressures (the result is documented to be at least float32): float32-level tolerances
        ("float32 array", f32[f32 >= 15.0], 3e-6),
    ):
        # the pressures in ascending order, as a depletion path (descending) and in no particular order: the relations
        # are about the values, not about the order in which a caller lists them
        k = len(arr)
        orders = {"ascending": np.arange(k), "descending": np.arange(k)[::-1], "unordered": np.concatenate([np.arange(1, k, 2), np.arange(0, k, 2)[::-1]])}
        if arel > 1e-9:
            orders = {"ascending": orders["ascending"]}
        for oname, perm in orders.items():
            grids.append((f"{label}, {oname}", arr, perm, arel))
    for label, arr, perm, arel in grids:
        if arr.size < 2:
            continue
        single = arel > 1e-9
        sep = (1e-3 if single else 1e-6) * pb  # pressures this far apart must give strictly ordered values
        given = arr[perm].copy()
        inv = np.argsort(perm)
        rs_a = np.asarray(lib(f"solution_gor_Standing({label})", O.solution_gor_Standing, T, given, api, sg, gor), float)
        bo_a = np.asarray(lib(f"b_o_Standing({label})", O.b_o_Standing, T, given, api, sg, gor), float)
        if rs_a.shape == given.shape and bo_a.shape == given.shape:
            rs_a, bo_a = rs_a[inv], bo_a[inv]  # back to ascending pressure for the relations below
        pa = arr.astype(float)
        if rs_a.shape != pa.shape or bo_a.shape != pa.shape or not (np.all(np.isfinite(rs_a)) and np.all(np.isfinite(bo_a))):
            res.bad("C12/finite", f"{label}: Rs / Bo not finite or wrong shape on {list(arr)[:6]}... oil={o}")
            continue
        if np.any(np.diff(rs_a) < -arel * gor):
            res.bad("C12/gor-non-decreasing", f"{label}: Rs not non-decreasing: {rs_a[:8]} on p={pa[:8]} oil={o}")
        above_a = pa >= pb
        if single:
            if np.any(np.abs(rs_a[above_a] - gor) > arel * gor):
                res.bad("C12/gor-equals-initial-above", f"{label}: Rs={rs_a[above_a][:4]} at/above p_b, Rsi={gor!r} oil={o}")
        elif np.any(rs_a[above_a] != gor):
            res.bad("C12/gor-equals-initial-above", f"{label}: Rs={rs_a[above_a][:4]} at/above p_b, Rsi={gor!r} oil={o}")
        for q, r_ in zip(pa[~above_a], rs_a[~above_a]):
            back = float(lib("pressure_bubblepoint_Standing", O.pressure_bubblepoint_Standing, T, api, sg, float(r_)))
            if not res.check("C12/gor-inverts-bubble-point", abs(back - q), max(1e-10, 10 * arel if single else 0.0) * q, f"{label}: p_b(Rs(p))={back!r} for p={q!r} (Rs={r_!r}) oil={o};"):
                break
        below_a = ~above_a
        if below_a.sum() >= 2:
            gaps, steps = np.diff(pa[below_a]), np.diff(bo_a[below_a])
            if np.any(steps[gaps > sep] <= 0):
                res.bad("C12/fvf-rises-below", f"{label}: Bo does not rise below p_b: {bo_a[below_a][:6]} on p={pa[below_a][:6]} oil={o}")
        if above_a.sum() >= 2:
            gaps, steps = np.diff(pa[above_a]), np.diff(bo_a[above_a])
            if np.any(steps[gaps > sep] >= 0):
                res.bad("C12/fvf-falls-above", f"{label}: Bo does not fall above p_b={pb!r}: {bo_a[above_a][:6]} on p={pa[above_a][:6]} oil={o}")
        # the array branch follows the scalar curve (Bo of the scalar calls above, interpolation-free: same pressures)
        if not single and label.startswith("float64") and form == "float":
            res.check("C12/array-branch-on-the-scalar-curve", float(np.max(np.abs(bo_a - np.array(bo)) / np.array(bo))), 1e-12, f"{label}: Bo array vs scalar calls on {ps[:4]}... oil={o};")
    # the correlations are functions of their arguments only: another oil (other GOR, gravity, temperature) evaluated
    # in between must not change the values of this one
    pq = float(ps[len(ps) // 2])
    for name, fn in (("pressure_bubblepoint_Standing", lambda *a: O.pressure_bubblepoint_Standing(a[0], a[2], a[3], a[4])), ("solution_gor_Standing", O.solution_gor_Standing), ("b_o_Standing", O.b_o_Standing), ("viscosity_beggs_robinson", O.viscosity_beggs_robinson), ("density_Standing", O.density_Standing)):
        lib(name, history_independent, res, "C12/independent-of-call-history", fn, (T, pq, api, sg, gor), [(T, pq, api, sg, gor * 1.7), (T + 1e-3, pq, api, sg, gor), (T, 0.5 * pq, api + 2, sg * 1.01, gor), (T, pq, api, sg, gor + 1e-6 * gor)], name)
    for p in above:
        if form in ("0d-float64", "0d-int64") or p - pb > 15000.0:
            # math.exp-based scalar correlation: plain numbers only.  The published formula has a pole 18118 psi above
            # the bubble point (its denominator 7.141e-4 (p - p_b) - 12.938 changes sign there); it is a correlation
            # for reservoir pressures and is only asserted up to 15000 psi above p_b
            break
        c_st = lib("c_o Standing", O.oil_compressibility_undersat_Standing, T, sc(p), api, sg, gor)
        if not (np.isfinite(c_st) and c_st > 0):
            res.bad("C12/positive", f"oil_compressibility_undersat_Standing={c_st!r} at p={p!r} (p_b={pb!r}) oil={o}")
            break
    if min(mu) <= 0:
        res.bad("C12/positive", f"viscosity {min(mu)!r} <= 0 oil={o}")
    if co and min(co) <= 0:
        res.bad("C12/positive", f"undersaturated compressibility {min(co)!r} <= 0 at {above[int(np.argmin(co))]!r} oil={o}")
    return res
