"""Shared data structures of the harness: violations, per-case results, statistics, Hypothesis driver."""

from __future__ import annotations

import hashlib
import json
import os
import time
from dataclasses import dataclass, field

import numpy as np

VERIF_DIR = os.path.dirname(os.path.dirname(os.path.abspath(__file__)))


class HarnessProblem(Exception):
    """The harness itself cannot do its job (reference failed, health check): exit 2, never a violation."""


class Inadmissible(Exception):
    """The generated configuration is outside the property's domain (counted as a discarded case)."""


class LibRaised(Exception):
    """The code under test raised on an input the property says it must handle."""

    def __init__(self, where, exc):
        super().__init__(f"{where}: {type(exc).__name__}: {exc}")
        self.where = where
        self.exc = exc


def lib(where, fn, *a, **k):
    """Call into the code under test; an exception there is a property matter, not a harness error."""
    try:
        return fn(*a, **k)
    except Exception as e:  # noqa: BLE001
        raise LibRaised(where, e) from e


def history_independent(res, oracle, fn, args, other_args_list, what, rtol=1e-12):
    """A pure function returns the same value for the same arguments whatever was evaluated in between.

    fn(*args) -> v1; fn(*other) for every other argument tuple (errors there are ignored); fn(*args) -> v2; v1 must
    equal v2 to `rtol` (rounding level of the routine: a correct warm start / incremental evaluation may move the last
    digits, a cache keyed on too few arguments or on rounded / "close enough" keys moves the value by far more)."""
    import numpy as _np

    v1 = fn(*args)
    for other in other_args_list:
        try:
            fn(*other)
        except Exception:  # noqa: BLE001
            pass
    v2 = fn(*args)
    a1, a2 = _np.asarray(v1, float), _np.asarray(v2, float)
    if a1.shape != a2.shape or not _np.allclose(a1, a2, rtol=rtol, atol=0.0, equal_nan=True):
        res.bad(oracle, f"{what}: {v1!r} on the first call, {v2!r} after evaluating {other_args_list!r} in between (arguments {args!r})")
        return False
    return True


def json_default(o):
    if isinstance(o, (np.floating,)):
        return float(o)
    if isinstance(o, (np.integer,)):
        return int(o)
    if isinstance(o, np.bool_):
        return bool(o)
    if isinstance(o, np.ndarray):
        return o.tolist()
    if isinstance(o, (set, frozenset)):
        return sorted(o)
    return repr(o)


def case_hash(case) -> int:
    s = json.dumps(case, sort_keys=True, default=json_default)
    return int.from_bytes(hashlib.blake2b(s.encode(), digest_size=8).digest(), "big")


@dataclass
class Violation:
    oracle: str  # stable id, e.g. "C14/range"
    detail: str  # human-readable: values, tolerance
    ratio: float = float("inf")  # observed / tolerance (>1)

    def as_dict(self):
        return {"oracle": self.oracle, "detail": self.detail, "ratio": _f(self.ratio)}


def _f(x):
    try:
        x = float(x)
    except Exception:  # noqa: BLE001
        return None
    if x != x or x in (float("inf"), float("-inf")):
        return repr(x)
    return x


@dataclass
class Result:
    violations: list = field(default_factory=list)
    nontrivial: bool = False
    labels: dict = field(default_factory=dict)  # histogram keys -> value (str/bool/int bucket)
    margin: float = 0.0  # largest observed/tolerance ratio among the oracles that held (<= 1)
    skipped: str | None = None  # reason the case was discarded (counted)
    counts: dict = field(default_factory=dict)  # extra integer counters (e.g. steps checked)
    margins: dict = field(default_factory=dict)  # oracle -> largest observed/tolerance ratio (held)

    def bad(self, oracle, detail, ratio=float("inf")):
        self.violations.append(Violation(oracle, detail, ratio))

    def check(self, oracle, value, tol, detail=""):
        """Assert value <= tol (value >= 0); track the margin."""
        value = float(value)
        if not (value <= tol):  # also catches NaN
            r = value / tol if tol > 0 else float("inf")
            self.bad(oracle, f"{detail} observed={value:.6g} tolerance={tol:.6g}", r)
            return False
        if tol > 0:
            r = value / tol
            self.margin = max(self.margin, r)
            if r > self.margins.get(oracle, -1.0):
                self.margins[oracle] = r
        else:
            self.margins.setdefault(oracle, 0.0)
        return True


class Stats:
    def __init__(self):
        self.evaluations = 0
        self.nontrivial_hashes = set()
        self.nontrivial_evals = 0
        self.skipped = {}
        self.labels = {}
        self.counts = {}
        self.samples = []
        self.known = {}
        self.excluded_hits = {}
        self.inconclusive = 0
        self.worst_margin = 0.0
        self.margins = {}
        self.failure = None
        self.wall = 0.0

    def record(self, case, res: Result, keep_sample):
        self.evaluations += 1
        if res.skipped:
            self.skipped[res.skipped] = self.skipped.get(res.skipped, 0) + 1
            return
        if res.nontrivial:
            self.nontrivial_evals += 1
            self.nontrivial_hashes.add(case_hash(case))
        for k, v in res.labels.items():
            key = f"{k}={v}"
            self.labels[key] = self.labels.get(key, 0) + 1
        for k, v in res.counts.items():
            self.counts[k] = self.counts.get(k, 0) + int(v)
        self.worst_margin = max(self.worst_margin, res.margin)
        for k, v in res.margins.items():
            if v > self.margins.get(k, (-1.0, 0))[0]:
                self.margins[k] = (v, self.margins.get(k, (0, 0))[1] + 1)
            else:
                self.margins[k] = (self.margins[k][0], self.margins[k][1] + 1)
        if keep_sample and res.nontrivial and len(self.samples) < 3:
            self.samples.append(case)

    def export(self):
        return {
            "evaluations": self.evaluations,
            "hashes": list(self.nontrivial_hashes),
            "nontrivial_evals": self.nontrivial_evals,
            "skipped": self.skipped,
            "labels": self.labels,
            "counts": self.counts,
            "samples": self.samples,
            "known": self.known,
            "excluded_hits": self.excluded_hits,
            "inconclusive": self.inconclusive,
            "worst_margin": self.worst_margin,
            "margins": {k: list(v) for k, v in self.margins.items()},
            "failure": self.failure,
        }

    def merge(self, r):
        self.evaluations += r["evaluations"]
        self.nontrivial_hashes.update(r["hashes"])
        self.nontrivial_evals += r["nontrivial_evals"]
        for name in ("skipped", "labels", "counts", "known", "excluded_hits"):
            d = getattr(self, name)
            for k, v in r[name].items():
                d[k] = d.get(k, 0) + v
        if len(self.samples) < 6:
            self.samples.extend(r["samples"][: 6 - len(self.samples)])
        self.inconclusive += r["inconclusive"]
        self.worst_margin = max(self.worst_margin, r["worst_margin"])
        for k, (v, n) in r.get("margins", {}).items():
            old = self.margins.get(k, (-1.0, 0))
            self.margins[k] = (max(old[0], v), old[1] + n)
        self.wall += r.get("wall_s", 0.0)

    def evidence(self, mod, tier, seed, wall, n_viol, extra):
        cov = {
            "evaluations": self.evaluations,
            "distinct_nontrivial": len(self.nontrivial_hashes),
            "nontrivial_evaluations": self.nontrivial_evals,
            "rule": mod.RULE,
            "samples": _shorten(self.samples[:5]),
            "class_histogram": dict(sorted(self.labels.items())),
            "counters": dict(sorted(self.counts.items())),
            "discarded_cases": self.skipped,
            "excluded_by_known_finding": self.known,
            "excluded_after_reported_violation": self.excluded_hits,
            "inconclusive_skipped_by_time_guard": self.inconclusive,
            "worst_margin_observed_over_tolerance": self.worst_margin,
            "oracles_checked": {k: {"cases": n, "worst_observed_over_tolerance": round(v, 6)} for k, (v, n) in sorted(self.margins.items())},
            "exhaustive": False,
        }
        cov.update(extra)
        return {
            "property_id": mod.ID,
            "tier": tier,
            "seed": seed,
            "level": mod.LEVEL,
            "coverage": cov,
            "assumptions": list(mod.ASSUMPTIONS),
            "wall_s": round(wall, 2),
            "violations": n_viol,
        }


def _shorten(obj, maxlen=24):
    """Samples are written out, but long arrays are abbreviated for readability."""
    if isinstance(obj, dict):
        return {k: _shorten(v, maxlen) for k, v in obj.items()}
    if isinstance(obj, (list, tuple)):
        if len(obj) > maxlen and all(not isinstance(x, (dict, list)) for x in obj):
            return [*obj[:8], f"... ({len(obj)} values) ...", *obj[-4:]]
        return [_shorten(v, maxlen) for v in obj]
    return obj


@dataclass
class WorkerContext:
    pid: str
    tier: str
    seed: int
    n: int
    deadline: float
    excluded: set
    known_keys: set
    shrink: bool
    known_match: object = None
    stats: Stats = field(default_factory=Stats)

    def timed_out(self):
        return time.time() > self.deadline

    def triage(self, case, res: Result):
        """Split violations into known / excluded / new; return the new ones."""
        new = []
        for v in res.violations:
            k = self.known_match(case, v) if self.known_match else None
            if k is not None and k in self.known_keys:
                self.stats.known[k] = self.stats.known.get(k, 0) + 1
            elif v.oracle in self.excluded:
                self.stats.excluded_hits[v.oracle] = self.stats.excluded_hits.get(v.oracle, 0) + 1
            else:
                new.append(v)
        return new


class _Found(Exception):
    pass


def safe_check(pid, check_case, case) -> Result:
    """check_case, with an exception of the code under test turned into a violation."""
    try:
        return check_case(case)
    except Inadmissible as e:
        return Result(skipped=str(e))
    except LibRaised as e:
        res = Result(nontrivial=True)
        res.bad(f"{pid}/no-exception", f"code under test raised on an admissible input: {e}")
        return res


def run_hypothesis(ctx: WorkerContext, strategy, check_case):
    """Drive check_case with Hypothesis; stop at the first new violation (shrunk when ctx.shrink)."""
    import hypothesis
    from hypothesis import HealthCheck, Phase, given, settings

    phases = [Phase.explicit, Phase.generate] + ([Phase.shrink] if ctx.shrink else [])
    st = settings(
        max_examples=ctx.n,
        database=None,
        deadline=None,
        derandomize=False,
        report_multiple_bugs=False,
        phases=phases,
        suppress_health_check=list(HealthCheck),
        print_blob=False,
        verbosity=hypothesis.Verbosity.quiet,
    )
    state = {"last": None, "generating": True}

    @hypothesis.seed(ctx.seed)
    @st
    @given(strategy)
    def prop(case):
        if state["generating"] and ctx.timed_out():
            ctx.stats.inconclusive += 1
            return
        res = safe_check(ctx.pid, check_case, case)
        ctx.stats.record(case, res, keep_sample=state["generating"])
        new = ctx.triage(case, res)
        if new:
            state["generating"] = False
            state["last"] = {"case": case, "violations": [v.as_dict() for v in new]}
            raise _Found(new[0].oracle)

    try:
        prop()
    except _Found:
        ctx.stats.failure = state["last"]
    except hypothesis.errors.HypothesisException as e:
        if state["last"] is not None:  # e.g. Flaky raised while shrinking: keep the recorded failure
            ctx.stats.failure = state["last"]
        else:
            raise HarnessProblem(f"hypothesis: {type(e).__name__}: {e}") from e
