"""Argument forms: the same number handed over as a Python / numpy scalar of either kind or as a 0-d array, the same
1-D data as ndarray / list / tuple / pandas Series (default or odd row labels).

Generated changes to a library rarely break the plain-float path; they break a dtype, a container or a label.  Every
property module that calls a scalar- or array-accepting entry point draws the form from here, so that the oracles
themselves stay untouched: the *value* is the same, only its representation differs, and the result must not depend
on it beyond the precision of the representation (float32 forms get float32-level tolerances, see `rel`).
"""

from __future__ import annotations

import numpy as np
from hypothesis import strategies as st

SCALAR_FORMS = ["float", "float", "float", "int", "np.int64", "np.int32", "np.float64", "np.float32", "0d-float64", "0d-int64"]
FLOAT_ONLY_FORMS = ["float", "float", "float", "np.float64", "np.float32", "0d-float64"]
ARRAY_FORMS = ["ndarray", "ndarray", "list", "tuple", "series", "series-odd-index"]


def scalar_form(allow_int=True):
    return st.sampled_from(SCALAR_FORMS if allow_int else FLOAT_ONLY_FORMS)


def array_form(allow=ARRAY_FORMS):
    return st.sampled_from(list(allow))


def is_int_form(form):
    return form in ("int", "np.int64", "np.int32", "0d-int64")


def representable(x, form):
    """The value that the form can actually carry (whole number for integer forms, float32-rounded for float32)."""
    if is_int_form(form):
        return float(round(x))
    if form == "np.float32":
        return float(np.float32(x))
    return float(x)


def scalar(x, form):
    """x (already `representable`) in the requested form."""
    if form == "float":
        return float(x)
    if form == "int":
        return int(round(x))
    if form == "np.int64":
        return np.int64(round(x))
    if form == "np.int32":
        return np.int32(round(x)) if abs(x) < 2**31 - 1 else np.int64(round(x))
    if form == "np.float64":
        return np.float64(x)
    if form == "np.float32":
        return np.float32(x)
    if form == "0d-float64":
        return np.array(float(x), dtype=np.float64)
    if form == "0d-int64":
        return np.array(int(round(x)), dtype=np.int64)
    raise ValueError(form)


def rel(form, base=1e-12, single=2e-6):
    """Relative tolerance appropriate for the form (single-precision inputs may be processed in single precision)."""
    return single if form == "np.float32" else base


def array(a, form):
    a = np.asarray(a)
    if form == "ndarray":
        return a.copy()
    if form == "list":
        return a.tolist()
    if form == "tuple":
        return tuple(a.tolist())
    import pandas as pd

    if form == "series":
        return pd.Series(a)
    if form == "series-odd-index":
        return pd.Series(a, index=np.arange(len(a))[::-1] * 3 + 11)
    raise ValueError(form)


PMAX_FORMS = ["float", "float", "int", "np.int64", "np.float64", "keyword", "keyword-int"]


def pmax_form():
    """How build_pvt_gas's maximum pressure is handed over (a whole number also as Python / numpy int, by keyword)."""
    return st.sampled_from(PMAX_FORMS)


def call_with_pmax(fn, gas_values, dryness, pmax, form):
    """fn(gas_values, dryness, <pmax in the requested form>); integer forms only when pmax is a whole number."""
    whole = float(pmax).is_integer()
    if form in ("int", "keyword-int") and whole:
        v = int(pmax)
    elif form == "np.int64" and whole:
        v = np.int64(int(pmax))
    elif form == "np.float64":
        v = np.float64(pmax)
    else:
        v = float(pmax)
    if form.startswith("keyword"):
        return fn(gas_values, dryness, maximum_pressure=v)
    return fn(gas_values, dryness, v)
