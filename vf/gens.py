"""Generators shared by the fluid-property checks (C06, C07, C11, C12, C13, C19)."""

from __future__ import annotations

import math

from hypothesis import strategies as st


def loguniform(lo, hi):
    return st.floats(math.log(lo), math.log(hi)).map(math.exp)


def _pb(T, api, sg, gor):
    """Standing bubble point (harness copy of the published correlation, used only to aim generators)."""
    return 18.2 * ((gor / sg) ** 0.83 * 10 ** (0.00091 * T - 0.0125 * api) - 1.4)


@st.composite
def oil_params(draw, min_pb=50.0):
    """(T, API, gas gravity, initial GOR) in the property's box with bubble point > min_pb, by construction."""
    T = draw(st.one_of(st.sampled_from([80.0, 200.0, 350.0]), st.floats(80.0, 350.0)))
    api = draw(st.one_of(st.sampled_from([12.0, 35.0, 55.0]), st.floats(12.0, 55.0)))
    sg = draw(st.one_of(st.sampled_from([0.56, 0.8, 1.3]), st.floats(0.56, 1.3)))
    # lowest GOR that keeps p_b > min_pb for these (T, api, sg): invert the correlation
    gor_min = sg * ((min_pb * 1.02 / 18.2 + 1.4) / 10 ** (0.00091 * T - 0.0125 * api)) ** (1 / 0.83)
    lo = max(20.0, gor_min)
    gor = draw(st.one_of(st.sampled_from([650.0, 2500.0]), loguniform(lo, 2500.0)))
    gor = max(gor, lo)
    if draw(st.integers(0, 3)) == 0:
        # parameters given as Python ints, as in the library's docstrings (Fluid(200, 35, 0.8, 650)): the dtype of a
        # parameter must not change the result
        T, api, gor = int(round(T)), int(round(api)), int(math.ceil(gor))
    # ... or as numpy float64 scalars, as they arrive when read from an array or a DataFrame row: unlike Python floats
    # they are not "weak" in NumPy's promotion rules (a comparison with a float32 array is made in float64)
    pform = draw(st.sampled_from(["py", "py", "np.float64"]))
    return {"T": T, "api": api, "sg": sg, "gor": gor, "pform": pform}


def oil_tuple(o):
    """(T, api, sg, gor) of a generated oil in the form the case asks for (`pform`)."""
    vals = (o["T"], o["api"], o["sg"], o["gor"])
    if o.get("pform", "py") == "np.float64":
        import numpy as np

        return tuple(np.float64(v) for v in vals)
    return vals


@st.composite
def gas_state(draw, tr_lo=1.05, tr_hi=3.0, pr_hi=30.0):
    """Pseudocritical point and (T, p) such that T_r in [tr_lo, tr_hi], p_r in (0, pr_hi]."""
    tpc = draw(st.floats(-120.0, 0.0))  # deg F
    ppc = draw(st.floats(550.0, 800.0))
    tr = draw(st.one_of(st.sampled_from([tr_lo, 1.1, 1.5, 2.0, tr_hi]), st.floats(tr_lo, tr_hi), st.floats(tr_lo, min(1.4, tr_hi))))
    pr = draw(
        st.one_of(
            st.floats(0.05, pr_hi),
            st.floats(min(10.0, pr_hi), pr_hi),
            loguniform(1e-4, pr_hi),
            st.sampled_from([pr_hi, 1.0, 0.5 * pr_hi]),
        )
    )
    T = tr * (tpc + 459.67) - 459.67
    p = pr * ppc
    return {"T": T, "p": p, "tpc": tpc, "ppc": ppc, "tr": tr, "pr": pr}


@st.composite
def gas_composition(draw):
    """Inputs of build_pvt_gas / pseudocritical_point_Sutton."""
    n2 = draw(st.one_of(st.just(0.0), st.floats(0.0, 0.15)))
    h2s = draw(st.one_of(st.just(0.0), st.floats(0.0, 0.15)))
    co2 = draw(st.one_of(st.just(0.0), st.floats(0.0, 0.15)))
    sg = draw(st.floats(0.55, 1.2))
    T = draw(st.floats(80.0, 400.0))
    dryness = draw(st.sampled_from(["dry gas", "wet gas"]))
    return {"N2": n2, "H2S": h2s, "CO2": co2, "sg": sg, "T": T, "dryness": dryness}
