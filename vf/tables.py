"""PVT-table families for the flow checks, built from JSON specs (DESIGN.md 2.9).

A spec is a plain dict; `build(spec)` returns a dict of float64 arrays with the columns
pressure, pseudopressure, compressibility, viscosity, z-factor, density (all positive, pressure increasing).

Families
  shipped   : the CSVs under tests/data (renamed as the repository's tests do), rows with p <= 0 and rows whose
              Z-factor is the old optimiser's search bound (Haynesville table above 12290 psia) dropped,
              optionally thinned (every k-th row) and cropped
  power     : z = 1, rho = p, c = 1/p, mu = mu0 (p/p0)^k  -> alpha ~ p^(1-k); k = 1 is constant diffusivity
  kinked    : as power with exponent k1 below p_k and k2 above (continuous mu, kink at a table node)
  realgas   : z = 1 + a x + b x^2, mu = mu0 (1 + s x^2), x = p/p_max; c = 1/p - z'/z
  liquid    : slightly compressible liquid, c = c0 and mu = mu0 constant, rho ~ exp(c0 p): diffusivity column exactly
              flat while m ~ exp(c0 p) is not proportional to p (the linear problem with m(p_f)/m(p_i) != p_f/p_i)
  library   : bluebonnet.fluids.build_pvt_gas for a generated composition
The synthetic families are thermodynamically exact at the nodes: rho = p/z, c = d ln rho/dp and
m = integral of 2p/(mu z) (Gauss-Legendre, 12 points per interval, split at the kink).
"""

from __future__ import annotations

import functools
import json
import math
import os

import numpy as np
from hypothesis import strategies as st

COLS = ("pressure", "pseudopressure", "compressibility", "viscosity", "z-factor", "density")
_GL_X, _GL_W = np.polynomial.legendre.leggauss(12)


def _nodes(spec):
    n, lo, hi = spec["n"], spec["pmin"], spec["pmax"]
    kind = spec["grid"]
    if kind == "uniform":
        p = np.linspace(lo, hi, n)
    elif kind == "geometric":
        p = np.geomspace(lo, hi, n)
    else:  # jitter: random positive increments
        w = np.cumsum([0.0] + [0.05 + 0.95 * j for j in spec["jit"][: n - 1]])
        p = lo + (hi - lo) * w / w[-1]
    return np.asarray(p, float)


def _integrate(f, p, breaks=()):
    """Cumulative integral of f over the nodes p (12-point Gauss-Legendre per interval, split at breaks)."""
    out = np.zeros(len(p))
    for i in range(len(p) - 1):
        pts = [p[i]] + [b for b in breaks if p[i] < b < p[i + 1]] + [p[i + 1]]
        tot = 0.0
        for a, b in zip(pts[:-1], pts[1:]):
            x = 0.5 * (b - a) * _GL_X + 0.5 * (b + a)
            tot += 0.5 * (b - a) * float(np.sum(_GL_W * f(x)))
        out[i + 1] = out[i] + tot
    return out


def _synthetic(spec):
    p = _nodes(spec)
    fam = spec["family"]
    mu0, p0 = spec["mu0"], spec["p0"]
    breaks = ()
    if fam == "power":
        k = spec["k"]
        mu = lambda q: mu0 * (q / p0) ** k  # noqa: E731
        z = lambda q: np.ones_like(q)  # noqa: E731
        dz = lambda q: np.zeros_like(q)  # noqa: E731
    elif fam == "kinked":
        k1, k2 = spec["k1"], spec["k2"]
        # the kink sits on an interior node so that tabulated columns are exact
        ik = min(max(1, int(round(spec["kink_frac"] * (len(p) - 1)))), len(p) - 2)
        pk = float(p[ik])
        breaks = (pk,)

        def mu(q):
            q = np.asarray(q, float)
            return np.where(q <= pk, mu0 * (q / p0) ** k1, mu0 * (pk / p0) ** k1 * (q / pk) ** k2)

        z = lambda q: np.ones_like(q)  # noqa: E731
        dz = lambda q: np.zeros_like(q)  # noqa: E731
    elif fam == "realgas":
        a, b, s, pm = spec["a"], spec["b"], spec["s"], spec["pmax"]
        mu = lambda q: mu0 * (1 + s * (q / pm) ** 2)  # noqa: E731
        z = lambda q: 1 + a * (q / pm) + b * (q / pm) ** 2  # noqa: E731
        dz = lambda q: a / pm + 2 * b * q / pm**2  # noqa: E731
    elif fam == "liquid":
        # slightly compressible liquid: constant compressibility c0 and viscosity, density ~ exp(c0 p).  The table is
        # thermodynamically consistent (1/p - z'/z = c0 with z = p / density) and its diffusivity column is *exactly*
        # flat, while pseudopressure ~ exp(c0 p) is far from proportional to pressure: the scaled problem is the linear
        # one (closed-form Fourier series) with frac-face value m(p_f)/m(p_i), not p_f/p_i
        c0 = spec["kappa"] / float(p[-1])
        zz = (p / p0) * np.exp(-c0 * (p - p[0]))
        return {
            "pressure": p,
            "viscosity": np.full_like(p, mu0),
            "z-factor": zz,
            "density": spec.get("rho0", 1.0) * p / zz,
            "compressibility": np.full_like(p, c0),
            "pseudopressure": (2 * p0 / (mu0 * c0)) * np.expm1(c0 * (p - p[0])),
        }
    else:
        raise ValueError(fam)
    zz = z(p)
    tab = {
        "pressure": p,
        "viscosity": mu(p),
        "z-factor": zz,
        "density": spec.get("rho0", 1.0) * p / zz,
        "compressibility": 1.0 / p - dz(p) / zz,
        "pseudopressure": _integrate(lambda q: 2 * q / (mu(q) * z(q)), p, breaks),
    }
    return tab


_RENAME = {"P": "pressure", "Z-Factor": "z-factor", "Cg": "compressibility", "Viscosity": "viscosity", "Density": "density"}


@functools.lru_cache(maxsize=8)
def _shipped_raw(name):
    import pandas as pd

    from vf import env

    fn = {"gas": "pvt_gas.csv", "ideal": "pvt_ideal_gas.csv", "hay": "pvt_gas_HAYNESVILLE SHALE_20.csv"}[name]
    df = pd.read_csv(os.path.join(env.DATA_DIR, fn)).rename(columns=_RENAME)
    df = df[df["pressure"] > 0.5]
    # the shipped Haynesville table was tabulated with the old optimiser-based Z-factor: its rows above 12290 psia
    # carry Z = 5 (the search bound, defect fixed in /repo 42e14aa) and a density that is not increasing; they are
    # not "positive, mutually consistent properties" and are dropped
    df = df[df["z-factor"] < 4.99].reset_index(drop=True)
    return {c: np.asarray(df[c], float) for c in COLS}


def _shipped(spec):
    raw = _shipped_raw(spec["name"])
    p = raw["pressure"]
    sel = np.ones(len(p), bool)
    if spec.get("crop"):
        lo, hi = spec["crop"]
        sel &= (p >= lo) & (p <= hi)
    idx = np.flatnonzero(sel)[:: max(1, int(spec.get("thin", 1)))]
    return {c: raw[c][idx].copy() for c in COLS}


@functools.lru_cache(maxsize=16)
def _library_cached(key):
    from bluebonnet.fluids import build_pvt_gas

    spec = json.loads(key)
    gv = {k: spec[k] for k in ("N2", "H2S", "CO2")}
    gv["Gas Specific Gravity"] = spec["sg"]
    gv["Reservoir Temperature (deg F)"] = spec["T"]
    df = build_pvt_gas(gv, spec["dryness"], spec["pmax"])
    out = {c: np.asarray(df[c if c != "density" else "Density"], float) for c in COLS}
    return out


def build(spec):
    tab = _build(spec)
    a = spec.get("p_unit", 1.0)
    if a != 1.0:
        # the same fluid with pressure in another unit (psi -> Pa is 6894.757, -> bar 0.0689, -> MPa 6.9e-3): pressure x a,
        # compressibility / a, pseudopressure (integral of 2p/(mu z) dp) x a^2.  In SI units c mu is ~1e-13, pressures
        # ~1e7 and pseudopressures ~1e19: nothing the scaled problem depends on changes
        tab["pressure"] = tab["pressure"] * a
        tab["compressibility"] = tab["compressibility"] / a
        tab["pseudopressure"] = tab["pseudopressure"] * (a * a)
    e = spec.get("mu_unit", 0)
    if e:
        # the same fluid in another unit of viscosity (cP -> Pa s is 1e-3; 1e12 gives diffusivities of ~1e-9 as in SI
        # units for a nanodarcy rock): viscosity x 10^e, pseudopressure (integral of 2p/(mu z)) x 10^-e.  The scaled
        # problem depends on alpha / alpha_i and on m * (c mu z / 2p)(p_i) only, so nothing an oracle uses changes
        tab["viscosity"] = tab["viscosity"] * 10.0**e
        tab["pseudopressure"] = tab["pseudopressure"] * 10.0**-e
    return tab


def _build(spec):
    fam = spec["family"]
    if fam == "shipped":
        return _shipped(spec)
    if fam == "library":
        t = _library_cached(json.dumps({k: v for k, v in spec.items() if k not in ("mu_unit", "p_unit")}, sort_keys=True))
        return {c: v.copy() for c, v in t.items()}
    return _synthetic(spec)


CONTAINERS = ["dict", "dataframe", "dataframe-offset-index", "dataframe-permuted-index", "dict-int-pressure", "dataframe-int-pressure", "dataframe-reordered-columns"]


def as_container(tab, container):
    """dict of arrays (default) or pandas DataFrame, in the variants a caller's table comes in:

    row labels that are not 0..n-1 (a table filtered or sliced earlier), row labels that are a permutation of 0..n-1
    (sort_values / iloc[::-1] without reset_index; the rows themselves keep their order), whole-number pressures held
    in an integer column (as read from a CSV; only when the pressures are whole numbers), columns in another order."""
    cols = {c: np.array(v, copy=True) for c, v in tab.items()}
    if container.endswith("int-pressure") and "pressure" in cols and np.all(cols["pressure"] == np.rint(cols["pressure"])):
        cols["pressure"] = cols["pressure"].astype(np.int64)
    if container.startswith("dataframe"):
        import pandas as pd

        names = list(cols)
        if container == "dataframe-reordered-columns":
            names = names[::-1]
        df = pd.DataFrame({c: cols[c] for c in names})
        if container == "dataframe-offset-index":
            df.index = np.arange(len(df)) * 3 + 100
        elif container == "dataframe-permuted-index":
            df.index = np.arange(len(df))[::-1]
        return df
    return cols


def constant_diffusivity(spec):
    return (spec["family"] == "power" and spec["k"] == 1.0) or spec["family"] == "liquid"


# --------------------------------------------------------------------------------------------------
# strategies


@st.composite
def _grid(draw, nmax):
    n = draw(st.integers(8, nmax))
    kind = draw(st.sampled_from(["uniform", "uniform", "geometric", "jitter"]))
    pmin = draw(st.sampled_from([10.0, 100.0, 14.7])) if draw(st.booleans()) else draw(st.floats(5.0, 500.0))
    pmax = pmin * draw(st.floats(3.0, 1500.0))
    g = {"n": n, "grid": kind, "pmin": pmin, "pmax": pmax}
    if kind == "jitter":
        g["jit"] = [draw(st.floats(0.0, 1.0)) for _ in range(n - 1)]
    return g


@st.composite
def synthetic_spec(draw, nmax=120, families=("power", "power1", "kinked", "realgas", "liquid")):
    fam = draw(st.sampled_from(list(families)))
    g = draw(_grid(nmax))
    spec = dict(g)
    spec["mu0"] = draw(st.floats(0.005, 0.5))
    spec["p0"] = draw(st.sampled_from([1000.0, 100.0])) if draw(st.booleans()) else draw(st.floats(50.0, 5000.0))
    spec["rho0"] = draw(st.sampled_from([1.0, 1.0, 3.7e-3, 62.4, 1e3, 1e-6]))  # density unit: recovery is a ratio
    if fam in ("power", "power1"):
        spec["family"] = "power"
        spec["k"] = 1.0 if fam == "power1" else draw(st.one_of(st.floats(0.2, 0.95), st.floats(1.05, 1.8)))
    elif fam == "kinked":
        spec["family"] = "kinked"
        spec["k1"] = draw(st.floats(0.2, 1.8))
        spec["k2"] = draw(st.floats(0.2, 1.8))
        spec["kink_frac"] = draw(st.floats(0.1, 0.9))
    elif fam == "liquid":
        spec["family"] = "liquid"
        spec["kappa"] = draw(st.one_of(st.floats(0.01, 4.0), st.sampled_from([1.0, 0.125, 3.0])))  # c0 * p_max
    else:
        spec["family"] = "realgas"
        spec["a"] = draw(st.floats(-0.4, 0.2))
        spec["b"] = draw(st.floats(0.0, 0.6))
        spec["s"] = draw(st.floats(0.0, 3.0))
    return spec


@st.composite
def shipped_spec(draw):
    name = draw(st.sampled_from(["gas", "gas", "ideal", "hay"]))
    spec = {"family": "shipped", "name": name, "thin": draw(st.sampled_from([1, 1, 1, 2, 5, 17, 60]))}
    if draw(st.integers(0, 3)) == 0:
        lo = draw(st.sampled_from([10.0, 100.0, 1000.0]))
        hi = draw(st.sampled_from([5000.0, 9000.0, 12000.0]))
        spec["crop"] = [lo, hi]
    return spec


@st.composite
def library_spec(draw, pmax_hi=1500.0):
    # a handful of compositions per run (tables are cached per worker), all inside the Z-factor's range
    sg = draw(st.sampled_from([0.6, 0.7, 0.85, 1.0]))
    T = draw(st.sampled_from([120.0, 200.0, 300.0, 400.0]))
    co2 = draw(st.sampled_from([0.0, 0.03]))
    pmax = draw(st.sampled_from([400.0, 800.0, pmax_hi]))
    return {"family": "library", "N2": 0.01, "H2S": 0.0, "CO2": co2, "sg": sg, "T": T, "dryness": draw(st.sampled_from(["dry gas", "wet gas"])), "pmax": pmax}


@st.composite
def table_spec(draw, nmax=120, with_library=True, families=("power", "power1", "kinked", "realgas", "liquid")):
    opts = [shipped_spec(), synthetic_spec(nmax, families), synthetic_spec(nmax, families)]
    if with_library:
        opts.append(library_spec())
    spec = dict(draw(st.one_of(*opts)))
    spec["mu_unit"] = draw(st.sampled_from([0, 0, 0, 0, -3, 3, 6, 12, 15, -6, -9]))
    spec["p_unit"] = draw(st.sampled_from([1.0, 1.0, 1.0, 1.0, 6894.757, 0.06894757, 6.894757e-3]))
    return spec


@st.composite
def pressure_pair(draw, near_one_weight=2):
    """Fractions locating p_i in the table and p_f/p_i; resolved against a concrete table by `resolve_pair`."""
    return {
        "pi_frac": draw(st.floats(0.15, 1.0)),
        "pi_on_node": draw(st.booleans()),
        "ratio": draw(
            st.one_of(
                st.floats(0.01, 0.99),
                *[st.floats(1.0, 5.0).map(lambda u: 1.0 - 10.0 ** (-u))] * near_one_weight,
            )
        ),
    }


def resolve_pair(tab, pair):
    """-> (p_f, p_i) inside the table; p_i on a node when requested; p_f >= first pressure."""
    p = tab["pressure"]
    lo, hi = float(p[0]), float(p[-1])
    # p_i not below the second node and at least 1.5x the first pressure, so that p_f fits
    pi_lo = max(float(p[1]), 1.5 * lo)
    pi = pi_lo + pair["pi_frac"] * (hi - pi_lo)
    if pair["pi_on_node"]:
        k = int(np.argmin(np.abs(p - pi)))
        k = max(k, 1)
        pi = float(p[k])
    pi = min(max(pi, pi_lo if not pair["pi_on_node"] else float(p[1])), hi)
    pf = max(pair["ratio"] * pi, lo)
    if pf >= pi:
        pf = 0.5 * (lo + pi)
    return float(pf), float(pi)


def scribble(container):
    """Overwrite the caller's table after it has been handed to the library (another unit system, re-use of the arrays
    for the next well): every numeric column is changed in place where the container allows it (dict of arrays: the
    arrays themselves; DataFrame: the column's buffer if writable, then the column is reassigned as well)."""
    for k in list(container.keys()):
        col = container[k]
        try:
            a = col if isinstance(col, np.ndarray) else col.to_numpy()
            if a.dtype.kind in "fiu" and a.flags.writeable:
                a *= 3
                a += 1
        except Exception:  # noqa: BLE001 - read-only buffers (copy-on-write frames): fall through to reassignment
            pass
        if not isinstance(col, np.ndarray):
            try:
                container[k] = np.asarray(container[k]) * 2 + 5
            except Exception:  # noqa: BLE001
                pass


def copies_agree(res, oracle, obj, p_queries, m_queries, what):
    """A copy of a wrapper object (copy.copy, copy.deepcopy, pickle round trip - worker processes, caches) is the same
    fluid: m_i, m_scaled_func at the given pressures and the diffusivity lookup at the given scaled pseudopressures
    (inside and outside the table) must be identical to the original's."""
    import copy
    import pickle

    want = (float(obj.m_i), np.asarray(obj.m_scaled_func(p_queries), float), np.asarray(obj.alpha(m_queries), float))
    for how, make in (("copy.copy", copy.copy), ("copy.deepcopy", copy.deepcopy), ("pickle round trip", lambda o: pickle.loads(pickle.dumps(o)))):
        try:
            c = make(obj)
            got = (float(c.m_i), np.asarray(c.m_scaled_func(p_queries), float), np.asarray(c.alpha(m_queries), float))
        except Exception as e:  # noqa: BLE001
            res.bad(oracle, f"{what}: {how} of the object cannot be made or evaluated: {type(e).__name__}: {e}")
            return
        for name, a, b in zip(("m_i", "m_scaled_func", "diffusivity lookup"), got, want):
            if np.shape(a) != np.shape(b) or not np.array_equal(a, b, equal_nan=True):
                res.bad(oracle, f"{what}: {name} of a {how} differs from the original's: {a!r} vs {b!r}")
                return
