"""Generic driver: ./check <ID> [--tier quick|thorough] [--replay file]

For one property module (vf/props/cNN.py) this
  1. replays the committed corpus (/verif/corpus/<ID>/*.json) without Hypothesis,
  2. replays the reproduction inputs of the listed known findings,
  3. runs the Hypothesis search on W worker processes (seed = VERIF_SEED*1000 + worker index),
  4. on a violation, records its oracle id, excludes that oracle (counted) and searches again so that one
     shallow defect does not hide the next one (bounded number of rounds),
  5. writes /verif/evidence/<ID>.json and prints VIOLATION / KNOWN-FINDING lines.

Exit codes: 0 held on everything explored, 1 violation (with a VIOLATION line), 2 harness error.

A property module provides
    ID, TITLE, LEVEL, RULE, ASSUMPTIONS, BUDGET = {"quick": n, "thorough": n}
    strategy(tier)                -> Hypothesis strategy of JSON-serialisable case records
    check_case(case)              -> Result (see vf.core)
optionally
    SHRINK = {"quick": bool, "thorough": bool}, WORKERS, TIME_LIMIT = {"quick": s, "thorough": s}
    known_match(case, violation)  -> key of a known finding or None
    run_worker(ctx)               -> custom worker (stateful machines)
"""

from __future__ import annotations

import argparse
import glob
import importlib
import json
import os
import sys
import time
import traceback
from concurrent.futures import ProcessPoolExecutor
import multiprocessing as mp

from vf import core


def _load(pid: str):
    return importlib.import_module(f"vf.props.{pid.lower()}")


# --------------------------------------------------------------------------------------------------
# worker


def _worker(args):
    """Run one Hypothesis search in a fresh process; return a picklable summary."""
    pid, tier, seed, n, deadline, excluded, known_keys, shrink = args
    t0 = time.time()
    try:
        from vf import env  # noqa: F401  (imports the code under test)

        mod = _load(pid)
        ctx = core.WorkerContext(
            pid=pid,
            tier=tier,
            seed=seed,
            n=n,
            deadline=deadline,
            excluded=set(excluded),
            known_keys=set(known_keys),
            shrink=shrink,
            known_match=getattr(mod, "known_match", None),
        )
        if hasattr(mod, "run_worker"):
            mod.run_worker(ctx)
        else:
            core.run_hypothesis(ctx, mod.strategy(tier), mod.check_case)
        out = ctx.stats.export()
        out["wall_s"] = time.time() - t0
        return out
    except core.HarnessProblem as e:
        return {"harness_error": f"{e}", "wall_s": time.time() - t0}
    except BaseException as e:  # noqa: BLE001 - a worker must always report back
        return {
            "harness_error": f"{type(e).__name__}: {e}\n{traceback.format_exc()}",
            "wall_s": time.time() - t0,
        }


# --------------------------------------------------------------------------------------------------


def _known_findings(pid):
    """Parse /verif/known_findings.txt -> {key: text} for this property (only `known:` lines)."""
    path = os.path.join(core.VERIF_DIR, "known_findings.txt")
    out = {}
    if not os.path.exists(path):
        return out
    for line in open(path):
        line = line.strip()
        if not line.startswith("known:"):
            continue
        fields = line[len("known:"):].split()
        kv = dict(f.split("=", 1) for f in fields[:2] if "=" in f)
        if kv.get("property") == pid and "key" in kv:
            out[kv["key"]] = " ".join(fields[2:])
    return out


def _replay_file(mod, path, known):
    data = json.load(open(path))
    case = data["case"] if isinstance(data, dict) and "case" in data else data
    res = core.safe_check(mod.ID, mod.check_case, case)
    new, hit = [], []
    km = getattr(mod, "known_match", None)
    for v in res.violations:
        k = km(case, v) if km else None
        if k is not None and k in known:
            hit.append(k)
        else:
            new.append(v)
    return case, res, new, hit


def _save_replay(pid, case, violations, tag):
    d = os.path.join(core.VERIF_DIR, "replays", pid)
    os.makedirs(d, exist_ok=True)
    path = os.path.join(d, f"{tag}.json")
    with open(path, "w") as f:
        json.dump(
            {"property": pid, "violations": [v.as_dict() for v in violations], "case": case},
            f,
            indent=1,
            default=core.json_default,
        )
    return path


def _run_fuzz(pid, runs, seed, procs, violations_found, known, mod):
    """Run vf.fuzz in `procs` processes (seeds seed*1000+k); append violations; return a summary for evidence."""
    import subprocess
    import tempfile

    tmp = tempfile.mkdtemp(prefix="bbfz_")
    env = dict(os.environ)
    deps = os.path.join(core.VERIF_DIR, ".deps")
    env["PYTHONPATH"] = os.pathsep.join([core.VERIF_DIR, deps, env.get("PYTHONPATH", "")])
    ps = []
    for k in range(procs):
        out = os.path.join(tmp, f"{k}.json")
        ps.append((out, subprocess.Popen([sys.executable, "-W", "ignore", "-m", "vf.fuzz", pid, str(runs), str(seed * 1000 + k), out], env=env, stdout=subprocess.DEVNULL, stderr=subprocess.DEVNULL, cwd=core.VERIF_DIR)))
    summary = {"processes": procs, "runs_per_process": runs, "fuzzer_calls": 0, "executions": 0, "distinct_nontrivial_sum_over_processes": 0, "available": True, "violations": 0}
    for k, (out, p) in enumerate(ps):
        p.wait()
        if not os.path.exists(out):
            summary["available"] = False
            summary.setdefault("errors", []).append(f"process {k} exited {p.returncode} without a summary")
            continue
        d = json.load(open(out))
        if not d.get("available", False):
            summary["available"] = False
            summary["reason"] = d.get("reason")
            continue
        summary["fuzzer_calls"] += d["fuzzer_calls"]
        summary["executions"] += d["executions"]
        summary["distinct_nontrivial_sum_over_processes"] += d["distinct_nontrivial"]
        if d.get("failure"):
            f = d["failure"]
            vs = [core.Violation(**v) for v in f["violations"]]
            km = getattr(mod, "known_match", None)
            new = [v for v in vs if not (km and km(f["case"], v) in known)]
            if new:
                path = _save_replay(pid, f["case"], new, f"atheris-{new[0].oracle.replace('/', '_')}-seed{seed}-{k}")
                violations_found.append((new[0].oracle, path, new[0].detail))
                summary["violations"] += 1
    import shutil

    shutil.rmtree(tmp, ignore_errors=True)
    return summary


def main(argv=None):
    ap = argparse.ArgumentParser()
    ap.add_argument("pid")
    ap.add_argument("--tier", default=os.environ.get("VERIF_TIER", "quick"), choices=["quick", "thorough"])
    ap.add_argument("--replay")
    ap.add_argument("--workers", type=int, default=int(os.environ.get("VERIF_WORKERS", "16")))
    ap.add_argument("--scale", type=float, default=float(os.environ.get("VERIF_SCALE", "1")))
    ap.add_argument("--no-evidence", action="store_true")
    a = ap.parse_args(argv)
    pid = a.pid.upper()
    t_start = time.time()
    try:
        seed = int(os.environ.get("VERIF_SEED", "1") or "1")
    except ValueError:
        seed = 1

    try:
        from vf import env  # noqa: F401

        mod = _load(pid)
    except Exception as e:  # noqa: BLE001
        print(f"HARNESS-ERROR property={pid} {type(e).__name__}: {e}")
        traceback.print_exc()
        return 2

    known = _known_findings(pid)

    # ---- replay mode ---------------------------------------------------------------------------
    if a.replay:
        try:
            case, res, new, hit = _replay_file(mod, a.replay, known)
        except Exception as e:  # noqa: BLE001
            print(f"HARNESS-ERROR property={pid} replay failed: {type(e).__name__}: {e}")
            traceback.print_exc()
            return 2
        for k in sorted(set(hit)):
            print(f"KNOWN-FINDING: property={pid} {known[k]}")
        for v in new:
            print(f"  violated oracle {v.oracle}: {v.detail}")
        if new:
            print(f"VIOLATION property={pid} replay={os.path.abspath(a.replay)}")
            return 1
        print(f"replay ok property={pid} (nontrivial={res.nontrivial})")
        return 0

    violations_found = []  # (oracle, replay path, detail)
    known_hits = {}
    harness_errors = []

    # ---- 1. corpus (regressions of fixed defects, seeded-change reproductions) -----------------
    corpus_files = sorted(glob.glob(os.path.join(core.VERIF_DIR, "corpus", pid, "*.json")))
    corpus_run = 0
    for path in corpus_files:
        try:
            case, res, new, hit = _replay_file(mod, path, known)
        except Exception as e:  # noqa: BLE001
            harness_errors.append(f"corpus {path}: {type(e).__name__}: {e}")
            continue
        corpus_run += 1
        for k in hit:
            known_hits[k] = known_hits.get(k, 0) + 1
        if new:
            violations_found.append((new[0].oracle, path, new[0].detail))

    # ---- 2. search -----------------------------------------------------------------------------
    budget = int(mod.BUDGET[a.tier] * a.scale)
    workers = min(a.workers, getattr(mod, "WORKERS", 16), max(1, budget))
    limit = getattr(mod, "TIME_LIMIT", {}).get(a.tier, 150 if a.tier == "quick" else 3000)
    limit = float(os.environ.get("VERIF_TIME_LIMIT", limit))
    shrink = getattr(mod, "SHRINK", {}).get(a.tier, a.tier == "thorough")
    deadline = t_start + limit
    merged = core.Stats()
    excluded = []
    max_rounds = 4 if a.tier == "quick" else 6
    rounds = 0
    while rounds < max_rounds:
        per = max(1, budget // workers)
        jobs = [
            (pid, a.tier, seed * 1000 + rounds * 100 + k, per, deadline, tuple(excluded), tuple(known), shrink)
            for k in range(workers)
        ]
        ctx = mp.get_context("fork")
        with ProcessPoolExecutor(max_workers=workers, mp_context=ctx) as ex:
            results = list(ex.map(_worker, jobs))
        rounds += 1
        failures = []
        for r in results:
            if "harness_error" in r:
                harness_errors.append(r["harness_error"])
                continue
            merged.merge(r)
            if r.get("failure"):
                failures.append(r["failure"])
        if harness_errors or not failures:
            break
        # smallest failing case per oracle
        by_oracle = {}
        for f in failures:
            o = f["violations"][0]["oracle"]
            if o not in by_oracle or len(json.dumps(f["case"])) < len(json.dumps(by_oracle[o]["case"])):
                by_oracle[o] = f
        for o, f in sorted(by_oracle.items()):
            vs = [core.Violation(**v) for v in f["violations"]]
            path = _save_replay(pid, f["case"], vs, f"{o.replace('/', '_')}-seed{seed}")
            violations_found.append((o, path, vs[0].detail))
            excluded.append(o)
        if time.time() > deadline:
            break
    for k, n in merged.known.items():
        known_hits[k] = known_hits.get(k, 0) + n

    # ---- 2b. coverage-guided second driver (atheris / libFuzzer), thorough tier of the branch-heavy checks ------
    fuzz_summary = None
    fuzz_runs = getattr(mod, "FUZZ", {}).get(a.tier)
    if fuzz_runs and not violations_found and not harness_errors:
        fuzz_summary = _run_fuzz(pid, int(fuzz_runs * a.scale), seed, min(workers, 16), violations_found, known, mod)

    wall = time.time() - t_start

    # ---- 3. report -----------------------------------------------------------------------------
    if harness_errors:
        for h in harness_errors[:3]:
            print(f"HARNESS-ERROR property={pid} {h}")
        # evidence is still written below (when possible) so that the run is documented
    for k in sorted(known):
        n = known_hits.get(k, 0)
        if n:
            print(f"KNOWN-FINDING: property={pid} {known[k]} [matched {n} generated/corpus cases this run]")
        else:
            print(f"note: listed finding {k} of {pid} was not observed in this run")
    seen = set()
    for o, path, detail in violations_found:
        print(f"  violated oracle {o}: {detail}")
        if (o, path) not in seen:
            print(f"VIOLATION property={pid} replay={path}")
            seen.add((o, path))

    if not a.no_evidence:
        try:
            ev = merged.evidence(
                mod,
                tier=a.tier,
                seed=seed,
                wall=wall,
                n_viol=len(violations_found),
                extra={
                    "corpus_cases_replayed": corpus_run,
                    "workers": workers,
                    "rounds": rounds,
                    "oracles_excluded_after_violation": excluded,
                    "known_findings_matched": known_hits,
                    "harness_errors": harness_errors[:3],
                    "budget_cases": budget,
                    "time_limit_s": limit,
                    "code_under_test": os.environ.get("VERIF_REPO_SRC", "/repo/src"),
                    "atheris_driver": fuzz_summary,
                },
            )
            os.makedirs(os.path.join(core.VERIF_DIR, "evidence"), exist_ok=True)
            tmp = os.path.join(core.VERIF_DIR, "evidence", f"{pid}.json.tmp")
            with open(tmp, "w") as f:
                json.dump(ev, f, indent=1, default=core.json_default)
            os.replace(tmp, os.path.join(core.VERIF_DIR, "evidence", f"{pid}.json"))
        except Exception as e:  # noqa: BLE001
            print(f"HARNESS-ERROR property={pid} evidence: {type(e).__name__}: {e}")
            traceback.print_exc()
            return 2

    print(
        f"{pid} tier={a.tier} seed={seed}: {merged.evaluations} cases, "
        f"{len(merged.nontrivial_hashes)} distinct non-trivial, {merged.inconclusive} skipped by time guard, "
        f"{len(violations_found)} violation(s), {wall:.1f}s"
    )
    if violations_found:
        return 1
    if harness_errors:
        return 2
    return 0


if __name__ == "__main__":
    sys.exit(main())
