"""Process environment: make sure the code under test is /repo's working tree (or VERIF_REPO_SRC).

Importing this module
  * puts the repository's ``src`` first on ``sys.path``,
  * imports ``bluebonnet`` and aborts with :class:`HarnessError` unless it came from there,
  * silences the library's (expected) runtime warnings so that they do not flood the logs.

``VERIF_REPO_SRC`` may only be set by the sensitivity self-test / seeded-change runs, which point it at a
scratch copy outside /repo and /verif.
"""

from __future__ import annotations

import os
import sys
import warnings

os.environ.setdefault("MPLBACKEND", "Agg")
for _v in ("OMP_NUM_THREADS", "OPENBLAS_NUM_THREADS", "MKL_NUM_THREADS"):
    os.environ.setdefault(_v, "1")

VERIF_DIR = os.path.dirname(os.path.dirname(os.path.abspath(__file__)))
REPO_SRC = os.path.abspath(os.environ.get("VERIF_REPO_SRC", "/repo/src"))
REPO_ROOT = os.path.dirname(REPO_SRC)
DATA_DIR = os.path.join(REPO_ROOT, "tests", "data")
if not os.path.isdir(DATA_DIR):  # scratch copies of src only: fall back to the repository's data
    DATA_DIR = "/repo/tests/data"


class HarnessError(Exception):
    """Something is wrong with the harness or its environment (exit code 2, never a VIOLATION)."""


def _import_repo():
    if not os.path.isdir(os.path.join(REPO_SRC, "bluebonnet")):
        raise HarnessError(f"no bluebonnet package under {REPO_SRC}")
    sys.path.insert(0, REPO_SRC)
    warnings.filterwarnings("ignore")
    try:
        import bluebonnet  # noqa: F401
        import bluebonnet.flow  # noqa: F401
        import bluebonnet.fluids  # noqa: F401
        import bluebonnet.forecast  # noqa: F401
    except Exception as e:  # pragma: no cover - depends on the tree under test
        raise HarnessError(f"cannot import bluebonnet from {REPO_SRC}: {e!r}") from e
    where = os.path.abspath(bluebonnet.__file__)
    if not where.startswith(REPO_SRC + os.sep):
        raise HarnessError(f"bluebonnet imported from {where}, expected under {REPO_SRC}")
    return bluebonnet


bluebonnet = _import_repo()
