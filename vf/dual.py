"""Forward-mode automatic differentiation with dual numbers (first derivative, scalar).

A Dual is passed through the library's *own* parent functions (np.ndim(Dual) == 0, so their scalar branches
run unchanged); the derivative part is exact to rounding - there is no step-size error.
"""

from __future__ import annotations

import math


class Dual:
    __array_priority__ = 1000
    __slots__ = ("v", "d")

    def __init__(self, v, d=0.0):
        self.v = float(v)
        self.d = float(d)

    @staticmethod
    def lift(x):
        return x if isinstance(x, Dual) else Dual(x, 0.0)

    def __repr__(self):
        return f"Dual({self.v!r}, {self.d!r})"

    def __add__(self, o):
        o = Dual.lift(o)
        return Dual(self.v + o.v, self.d + o.d)

    __radd__ = __add__

    def __sub__(self, o):
        o = Dual.lift(o)
        return Dual(self.v - o.v, self.d - o.d)

    def __rsub__(self, o):
        o = Dual.lift(o)
        return Dual(o.v - self.v, o.d - self.d)

    def __mul__(self, o):
        o = Dual.lift(o)
        return Dual(self.v * o.v, self.d * o.v + self.v * o.d)

    __rmul__ = __mul__

    def __truediv__(self, o):
        o = Dual.lift(o)
        return Dual(self.v / o.v, (self.d * o.v - self.v * o.d) / o.v**2)

    def __rtruediv__(self, o):
        return Dual.lift(o) / self

    def __neg__(self):
        return Dual(-self.v, -self.d)

    def __pos__(self):
        return self

    def __abs__(self):
        return self if self.v >= 0 else -self

    def __pow__(self, o):
        if isinstance(o, Dual):
            val = self.v**o.v
            return Dual(val, val * (o.d * math.log(self.v) + o.v * self.d / self.v))
        return Dual(self.v**o, o * self.v ** (o - 1) * self.d)

    def __rpow__(self, o):
        val = o**self.v
        return Dual(val, val * math.log(o) * self.d)

    def __lt__(self, o):
        return self.v < Dual.lift(o).v

    def __le__(self, o):
        return self.v <= Dual.lift(o).v

    def __gt__(self, o):
        return self.v > Dual.lift(o).v

    def __ge__(self, o):
        return self.v >= Dual.lift(o).v

    def __eq__(self, o):
        return self.v == Dual.lift(o).v

    def __hash__(self):
        return hash(self.v)

    # deliberately no __float__: math.log(Dual) must raise instead of silently dropping the derivative

    # hooks that NumPy ufuncs call on object scalars (np.sqrt(Dual) -> Dual.sqrt())
    def sqrt(self):
        return self**0.5

    def exp(self):
        e = math.exp(self.v)
        return Dual(e, e * self.d)

    def log(self):
        return Dual(math.log(self.v), self.d / self.v)

    def log10(self):
        return Dual(math.log10(self.v), self.d / (self.v * math.log(10.0)))
