"""Time grids and frac-face schedules from JSON specs (DESIGN.md 2.9)."""

from __future__ import annotations

import numpy as np
from hypothesis import strategies as st


def build_time(spec):
    kind = spec["kind"]
    if kind == "uniform":
        t = np.linspace(0.0, spec["T"], spec["n"])
    elif kind == "quadratic":
        t = np.linspace(0.0, np.sqrt(spec["T"]), spec["n"]) ** 2
    elif kind == "geometric":
        t = np.concatenate([[0.0], spec["t0"] * spec["ratio"] ** np.arange(spec["n"] - 1)])
    elif kind == "steps":  # explicit increments (random log-uniform, very large, zero steps)
        t = np.concatenate([[0.0], np.cumsum(spec["steps"])])
    elif kind == "intdays":  # whole-number times held in an integer array (np.arange(0, n) days), a legitimate grid
        return np.arange(spec["n"], dtype=np.int64) * int(spec["step"]) + int(spec.get("start", 0))
    else:
        raise ValueError(kind)
    return np.asarray(t, float) + float(spec.get("start", 0.0))


@st.composite
def time_spec(draw, max_steps=200, kinds=("uniform", "quadratic", "geometric", "random", "big", "repeat", "intdays", "scattered")):
    kind = draw(st.sampled_from(list(kinds)))
    if kind == "intdays":
        return {"kind": "intdays", "n": draw(st.integers(3, min(max_steps + 1, 150))), "step": draw(st.sampled_from([1, 1, 2, 30])), "start": draw(st.sampled_from([0, 0, 5])), "label": "intdays"}
    start = draw(st.sampled_from([0.0, 0.0, 0.0, 1.0, 0.37]))
    if kind in ("uniform", "quadratic"):
        return {"kind": kind, "n": draw(st.integers(3, max_steps + 1)), "T": draw(st.one_of(st.floats(0.01, 10.0), st.floats(10.0, 1e4))), "start": start}
    if kind == "geometric":
        n = draw(st.integers(3, min(max_steps + 1, 120)))
        return {"kind": "geometric", "n": n, "t0": 10.0 ** draw(st.floats(-8.0, -2.0)), "ratio": draw(st.floats(1.05, 1.6)), "start": start}
    if kind == "random":
        n = draw(st.integers(2, min(max_steps, 60)))
        return {"kind": "steps", "steps": [10.0 ** draw(st.floats(-8.0, 4.0)) for _ in range(n)], "start": start, "label": "random"}
    if kind == "scattered":
        # times scattered uniformly over the transient (report dates, sorted): consecutive steps differ by factors of
        # 10-100 while the profile is still moving - the situation in which node 0 rises when a step grows
        n = draw(st.integers(5, min(max_steps, 60)))
        T = draw(st.floats(0.05, 5.0))
        u = sorted(draw(st.floats(0.0, 1.0)) for _ in range(n))
        steps = [float(T * max(b - a, 1e-9)) for a, b in zip([0.0] + u[:-1], u)]
        return {"kind": "steps", "steps": steps, "start": start, "label": "scattered"}
    if kind == "big":
        n = draw(st.integers(1, 5))
        return {"kind": "steps", "steps": [10.0 ** draw(st.floats(3.0, 12.0)) for _ in range(n)], "start": start, "label": "big"}
    # repeated times (zero steps) mixed with ordinary ones
    n = draw(st.integers(2, min(max_steps, 40)))
    return {"kind": "steps", "steps": [draw(st.one_of(st.just(0.0), st.floats(1e-4, 1.0))) for _ in range(n)], "start": start, "label": "repeat"}


def grid_label(spec):
    return spec.get("label", spec["kind"])


@st.composite
def schedule_spec(draw, n_levels_max=6):
    """None (scalar setting), 'constant', 'stepdown' (non-increasing) or 'arbitrary'; values as fractions."""
    kind = draw(st.sampled_from(["none", "none", "constant", "stepdown", "arbitrary"]))
    if kind in ("none", "constant"):
        return {"kind": kind}
    k = draw(st.integers(2, n_levels_max))
    return {"kind": kind, "levels": [draw(st.floats(0.0, 1.0)) for _ in range(k)], "breaks": sorted(draw(st.floats(0.0, 1.0)) for _ in range(k - 1))}


def build_schedule(spec, nt, p_f, p_i, p_lo):
    """Frac-face pressures per time level, or None for the scalar setting.

    Level fractions f map to p_lo + f (p_i - p_lo); the first level of a schedule is p_f itself so that the
    reservoir's scalar attribute and the schedule agree at t0."""
    kind = spec["kind"]
    if kind == "none":
        return None
    if kind == "constant":
        return np.full(nt, p_f)
    vals = [p_f] + [p_lo + f * (p_i - p_lo) for f in spec["levels"][1:]]
    if kind == "stepdown":
        vals = list(np.minimum.accumulate(vals))
    edges = [0] + [int(round(b * (nt - 1))) for b in spec["breaks"]] + [nt]
    out = np.empty(nt)
    for v, a, b in zip(vals, edges[:-1], edges[1:]):
        out[a:b] = v
    out[edges[-2]:] = vals[-1]
    return out
