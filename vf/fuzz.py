"""Coverage-guided second driver (atheris / libFuzzer) for the branch-heavy validation code (C09, C11, C14).

    python -m vf.fuzz <ID> <runs> <seed> <out.json>

The fuzzer feeds bytes to Hypothesis's `fuzz_one_input` of the *same* property (strategy + check_case) that the
Hypothesis driver uses, so the oracle is inside the target; `bluebonnet` is instrumented for coverage.  The
campaign is bounded by a number of executions (`-runs`), seeded (`-seed`), starts from an empty corpus in a
temporary directory and writes a small JSON summary.  A violation makes the process exit 1 after saving the
failing case next to the summary.  atheris is optional: if it cannot be imported the driver reports that and
exits 3 (the caller then records "fuzz driver unavailable" and carries on with Hypothesis only).
"""

from __future__ import annotations

import json
import os
import sys
import tempfile
import time


def main():
    pid, runs, seed, out = sys.argv[1], int(sys.argv[2]), int(sys.argv[3]), sys.argv[4]
    try:
        import atheris
    except Exception as e:  # noqa: BLE001
        json.dump({"available": False, "reason": repr(e)}, open(out, "w"))
        return 3
    import importlib

    # coverage of the code under test guides the search; coverage of the property module and of Hypothesis's
    # byte-stream decoder lets libFuzzer learn which byte strings decode to complete cases at all
    with atheris.instrument_imports(include=["bluebonnet", "vf.props", "hypothesis.internal.conjecture"]):
        from vf import env  # noqa: F401
        from hypothesis import HealthCheck, given, settings

        mod = importlib.import_module(f"vf.props.{pid.lower()}")

    from vf import core

    state = {"n": 0, "calls": 0, "nontrivial": set(), "failure": None, "labels": {}}

    @settings(database=None, deadline=None, suppress_health_check=list(HealthCheck))
    @given(mod.strategy("thorough"))
    def prop(case):
        res = core.safe_check(pid, mod.check_case, case)
        state["n"] += 1
        if res.nontrivial and not res.skipped:
            state["nontrivial"].add(core.case_hash(case))
        for k, v in res.labels.items():
            key = f"{k}={v}"
            state["labels"][key] = state["labels"].get(key, 0) + 1
        if res.violations:
            state["failure"] = {"case": case, "violations": [v.as_dict() for v in res.violations]}
            raise AssertionError(res.violations[0].oracle)

    def target(data):
        state["calls"] += 1
        try:
            prop.hypothesis.fuzz_one_input(data)
        except AssertionError:
            finish(1)
        if state["calls"] >= runs:  # libFuzzer exits the process itself after -runs: write the summary first
            finish(0)

    def finish(code):
        import shutil

        shutil.rmtree(corpus, ignore_errors=True)
        json.dump(
            {
                "available": True,
                "fuzzer_calls": state["calls"],
                "executions": state["n"],
                "distinct_nontrivial": len(state["nontrivial"]),
                "labels": state["labels"],
                "failure": state["failure"],
                "wall_s": round(time.time() - t0, 1),
            },
            open(out, "w"),
            default=core.json_default,
        )
        sys.stdout.flush()
        os._exit(code)

    t0 = time.time()
    corpus = tempfile.mkdtemp(prefix="bbfuzz_")
    argv = [sys.argv[0], f"-runs={runs}", f"-seed={seed}", "-max_len=8192", "-len_control=0", "-print_final_stats=0", "-verbosity=0", corpus]
    atheris.Setup(argv, target)
    try:
        atheris.Fuzz()  # libFuzzer exits the process after -runs; `target` writes the summary before that
    finally:
        finish(0)


if __name__ == "__main__":
    sys.exit(main())
