"""Property-based verification harness for frank1010111/bluebonnet (see /verif/DESIGN.md)."""
