"""Independent references written in the harness (never imported from the code under test)."""

from __future__ import annotations

import math

import numpy as np
from scipy.optimize import brentq

# --------------------------------------------------------------------------------------------------
# Dranchuk & Abou-Kassem (1975), the published 11-constant equation of state
#   Z = 1 + C1 rho + C2 rho^2 - C3 rho^5 + A10 (1 + A11 rho^2) rho^2 / T_r^3 exp(-A11 rho^2)
#   C1 = A1 + A2/T_r + A3/T_r^3 + A4/T_r^4 + A5/T_r^5
#   C2 = A6 + A7/T_r + A8/T_r^2,  C3 = A9 (A7/T_r + A8/T_r^2),  rho = 0.27 p_r / (Z T_r)

DAK_A = (0.3265, -1.0700, -0.5339, 0.01569, -0.05165, 0.5475, -0.7361, 0.1844, 0.1056, 0.6134, 0.7210)


def dak_c1(tr, variant=False):
    """First density coefficient; variant=True is the library's `A1*A2/T_r` (known finding F5)."""
    a = DAK_A
    lead = a[0] * a[1] / tr if variant else a[0] + a[1] / tr
    return lead + a[2] / tr**3 + a[3] / tr**4 + a[4] / tr**5


def dak_z_of_rho(rho, tr, variant=False):
    a = DAK_A
    c2 = a[5] + a[6] / tr + a[7] / tr**2
    c3 = a[8] * (a[6] / tr + a[7] / tr**2)
    return (
        1.0
        + dak_c1(tr, variant) * rho
        + c2 * rho**2
        - c3 * rho**5
        + a[9] * (1 + a[10] * rho**2) * rho**2 / tr**3 * math.exp(-a[10] * rho**2)
    )


def dak_dz_drho(rho, tr, variant=False):
    a = DAK_A
    c2 = a[5] + a[6] / tr + a[7] / tr**2
    c3 = a[8] * (a[6] / tr + a[7] / tr**2)
    e = math.exp(-a[10] * rho**2)
    return (
        dak_c1(tr, variant)
        + 2 * c2 * rho
        - 5 * c3 * rho**4
        + (2 * a[9] * rho / tr**3) * (1 + a[10] * rho**2 - a[10] ** 2 * rho**4) * e
    )


def dak_residual(z, tr, pr, variant=False):
    """g(Z) = Z - Z_EOS(rho(Z)); zero iff Z solves the equation of state at its own reduced density."""
    rho = 0.27 * pr / (z * tr)
    return z - dak_z_of_rho(rho, tr, variant)


def dak_roots(tr, pr, variant=False, zlo=0.03, zhi=8.0, n=1500):
    """All roots Z in [zlo, zhi] of the EOS (scan + Brent)."""
    zs = np.geomspace(zlo, zhi, n)
    fs = [dak_residual(z, tr, pr, variant) for z in zs]
    roots = []
    for i in range(n - 1):
        if fs[i] == 0:
            roots.append(float(zs[i]))
        elif fs[i] * fs[i + 1] < 0:
            roots.append(brentq(dak_residual, zs[i], zs[i + 1], args=(tr, pr, variant), xtol=1e-15, rtol=1e-14))
    return roots


def dak_cg_reduced(z, tr, pr, variant=False):
    """Reduced isothermal compressibility c_r = 1/p_r - (1/Z) dZ/dp_r from the EOS at (Z, rho(Z))."""
    rho = 0.27 * pr / (z * tr)
    dz = dak_dz_drho(rho, tr, variant)
    return 1.0 / pr - 0.27 / (z**2 * tr) * (dz / (1 + rho * dz / z))
