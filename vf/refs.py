"""Independent references written in the harness (never imported from the code under test)."""

from __future__ import annotations

import math

import numpy as np
from scipy.optimize import brentq

# --------------------------------------------------------------------------------------------------
# Dranchuk & Abou-Kassem (1975), the published 11-constant equation of state
#   Z = 1 + C1 rho + C2 rho^2 - C3 rho^5 + A10 (1 + A11 rho^2) rho^2 / T_r^3 exp(-A11 rho^2)
#   C1 = A1 + A2/T_r + A3/T_r^3 + A4/T_r^4 + A5/T_r^5
#   C2 = A6 + A7/T_r + A8/T_r^2,  C3 = A9 (A7/T_r + A8/T_r^2),  rho = 0.27 p_r / (Z T_r)

DAK_A = (0.3265, -1.0700, -0.5339, 0.01569, -0.05165, 0.5475, -0.7361, 0.1844, 0.1056, 0.6134, 0.7210)


def dak_c1(tr, variant=False):
    """First density coefficient; variant=True is the library's `A1*A2/T_r` (known finding F5)."""
    a = DAK_A
    lead = a[0] * a[1] / tr if variant else a[0] + a[1] / tr
    return lead + a[2] / tr**3 + a[3] / tr**4 + a[4] / tr**5


def dak_z_of_rho(rho, tr, variant=False):
    a = DAK_A
    c2 = a[5] + a[6] / tr + a[7] / tr**2
    c3 = a[8] * (a[6] / tr + a[7] / tr**2)
    return (
        1.0
        + dak_c1(tr, variant) * rho
        + c2 * rho**2
        - c3 * rho**5
        + a[9] * (1 + a[10] * rho**2) * rho**2 / tr**3 * math.exp(-a[10] * rho**2)
    )


def dak_dz_drho(rho, tr, variant=False):
    a = DAK_A
    c2 = a[5] + a[6] / tr + a[7] / tr**2
    c3 = a[8] * (a[6] / tr + a[7] / tr**2)
    e = math.exp(-a[10] * rho**2)
    return (
        dak_c1(tr, variant)
        + 2 * c2 * rho
        - 5 * c3 * rho**4
        + (2 * a[9] * rho / tr**3) * (1 + a[10] * rho**2 - a[10] ** 2 * rho**4) * e
    )


def dak_residual(z, tr, pr, variant=False):
    """g(Z) = Z - Z_EOS(rho(Z)); zero iff Z solves the equation of state at its own reduced density."""
    rho = 0.27 * pr / (z * tr)
    return z - dak_z_of_rho(rho, tr, variant)


def dak_roots(tr, pr, variant=False, zlo=0.03, zhi=8.0, n=1500):
    """All roots Z in [zlo, zhi] of the EOS (scan + Brent)."""
    zs = np.geomspace(zlo, zhi, n)
    fs = [dak_residual(z, tr, pr, variant) for z in zs]
    roots = []
    for i in range(n - 1):
        if fs[i] == 0:
            roots.append(float(zs[i]))
        elif fs[i] * fs[i + 1] < 0:
            roots.append(brentq(dak_residual, zs[i], zs[i + 1], args=(tr, pr, variant), xtol=1e-15, rtol=1e-14))
    return roots


def dak_cg_reduced(z, tr, pr, variant=False):
    """Reduced isothermal compressibility c_r = 1/p_r - (1/Z) dZ/dp_r from the EOS at (Z, rho(Z))."""
    rho = 0.27 * pr / (z * tr)
    dz = dak_dz_drho(rho, tr, variant)
    return 1.0 / pr - 0.27 / (z**2 * tr) * (dz / (1 + rho * dz / z))


# --------------------------------------------------------------------------------------------------
# The documented boundary-value problem (docs/background.md):
#   u_t = a(u) u_xx on 0 < x < 1,  u(0, t) = u_f,  u_x(1, t) = 0,  u(x, 0) = u_i,   a = alpha / alpha_i


def fourier_field(x, t, n_terms=400):
    """(u - u_f)/(u_i - u_f) for a = 1: sum_k 2/w_k sin(w_k x) exp(-w_k^2 t), w_k = (2k-1) pi/2."""
    x = np.asarray(x, float)
    k = np.arange(1, n_terms + 1)
    w = (2 * k - 1) * np.pi / 2
    return np.sum((2 / w)[:, None] * np.sin(w[:, None] * x[None, :]) * np.exp(-(w**2)[:, None] * t), axis=0)


def fourier_recovery(t, n_terms=2000):
    """Recovered fraction of the drawdown for a = 1: 1 - sum_k 2/w_k^2 exp(-w_k^2 t) (vectorised in t)."""
    t = np.atleast_1d(np.asarray(t, float))
    k = np.arange(1, n_terms + 1)
    w2 = ((2 * k - 1) * np.pi / 2) ** 2
    out = 1.0 - np.sum((2 / w2)[:, None] * np.exp(-w2[:, None] * t[None, :]), axis=0)
    # for very small t the truncated series loses accuracy: use the half-space solution 2 sqrt(t/pi)
    small = t < 1e-5
    out[small] = 2 * np.sqrt(t[small] / np.pi)
    return out


class MolReference:
    """Independent method-of-lines solution of the documented problem with pressure-dependent diffusivity.

    Space: N cells, true Dirichlet node at x = 0, second-order reflecting closure at x = 1 (ghost u_{N+1} =
    u_{N-1}); time: LSODA with a banded Jacobian, rtol 1e-9; diffusivity lookup: np.interp on the table's
    (scaled pseudopressure, diffusivity) columns computed by the harness from the raw PVT columns.
    """

    def __init__(self, ms, alpha, u_f, u_i, n=600):
        self.ms = np.asarray(ms, float)
        self.al = np.asarray(alpha, float)
        self.u_f, self.u_i, self.n = float(u_f), float(u_i), n
        self.a_i = float(np.interp(u_i, self.ms, self.al))
        self.x = np.linspace(0.0, 1.0, n + 1)  # node 0 is the Dirichlet node
        self.h = 1.0 / n
        self.sol = None

    def a(self, u):
        return np.interp(u, self.ms, self.al) / self.a_i

    def _rhs(self, t, y):
        u = np.concatenate([[self.u_f], y])
        lap = np.empty(self.n)
        lap[:-1] = u[:-2] - 2 * u[1:-1] + u[2:]
        lap[-1] = 2 * (u[-2] - u[-1])
        return self.a(y) * lap / self.h**2

    def solve(self, t_end, t_eval=None):
        from scipy.integrate import solve_ivp

        y0 = np.full(self.n, self.u_i)
        d = abs(self.u_i - self.u_f)
        self.sol = solve_ivp(
            self._rhs, (0.0, float(t_end)), y0, method="LSODA", rtol=1e-9, atol=1e-12 * max(d, 1e-300), lband=1, uband=1, dense_output=True
        )
        if not self.sol.success:
            raise RuntimeError(f"reference integration failed: {self.sol.message}")
        return self

    def field(self, t):
        """u on the reference nodes (including the Dirichlet node) at time t."""
        return np.concatenate([[self.u_f], self.sol.sol(float(t))])

    def field_at(self, x, t):
        return np.interp(x, self.x, self.field(t))

    def integral(self, func, t):
        """integral over x of func(u(x, t)) by the trapezoid rule on the reference grid."""
        v = func(self.field(t))
        return float(np.sum(0.5 * (v[1:] + v[:-1])) * self.h)


def implied_density(ms, alpha, u_f, u_i):
    """R(u) = integral_{u_f}^{u} alpha_i / alpha du' on [u_f, u_i] (piecewise-linear alpha, integrated exactly).

    In the continuum d/dt integral R(u) dx = -u_x(0, t), i.e. flux recovery = integral (R(u_i) - R(u)) dx."""
    ms = np.asarray(ms, float)
    al = np.asarray(alpha, float)
    a_i = float(np.interp(u_i, ms, al))
    inner = ms[(ms > u_f) & (ms < u_i)]
    pts = np.concatenate([[u_f], inner, [u_i]])
    av = np.interp(pts, ms, al)
    seg = np.empty(len(pts) - 1)
    for k in range(len(pts) - 1):
        du, a0, a1 = pts[k + 1] - pts[k], av[k], av[k + 1]
        seg[k] = a_i * du / a0 if abs(a1 - a0) < 1e-12 * abs(a0) else a_i * du * np.log(a1 / a0) / (a1 - a0)
    cum = np.concatenate([[0.0], np.cumsum(seg)])

    def R(u):
        u = np.clip(np.asarray(u, float), u_f, u_i)
        k = np.clip(np.searchsorted(pts, u, side="right") - 1, 0, len(pts) - 2)
        a0, a1 = av[k], av[k + 1]
        du = u - pts[k]
        slope = (a1 - a0) / (pts[k + 1] - pts[k])
        au = a0 + slope * du
        with np.errstate(divide="ignore", invalid="ignore"):
            part = np.where(np.abs(a1 - a0) < 1e-12 * np.abs(a0), a_i * du / a0, a_i * np.log(au / a0) / np.where(slope == 0, 1.0, slope))
        return cum[k] + part

    return R, float(cum[-1])
