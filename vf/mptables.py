"""Multiphase (oil-gas-water) PVT tables, relative-permeability tables and the documented mobility / storage.

The reference formulas here are written from docs/background.md ("Simplified two-phase flow"), with the harness's
own piecewise-linear table lookup (np.interp, linear extrapolation) - nothing is imported from the library.
"""

from __future__ import annotations

import functools
import os

import numpy as np
from hypothesis import strategies as st

PVT_COLS = ("Bo", "Bg", "Bw", "Rs", "Rv", "mu_o", "mu_g", "mu_w")


@functools.lru_cache(maxsize=2)
def _shipped():
    import pandas as pd

    from vf import env

    oil = pd.read_csv(os.path.join(env.DATA_DIR, "pvt_oil.csv"))
    water = pd.read_csv(os.path.join(env.DATA_DIR, "pvt_water.csv")).rename(columns={"T": "temperature", "P": "pressure", "Viscosity": "mu_w"})
    df = water.drop(columns=["temperature"]).merge(
        oil.rename(columns={"T": "temperature", "P": "pressure", "Oil_Viscosity": "mu_o", "Gas_Viscosity": "mu_g", "Rso": "Rs"}), on="pressure"
    ).assign(Rv=0.0)
    df = df[df["pressure"] > 0.5].reset_index(drop=True)
    out = {c: np.asarray(df[c], float) for c in PVT_COLS}
    out["pressure"] = np.asarray(df["pressure"], float)
    out["pseudopressure"] = np.asarray(df["pseudopressure"], float)
    return out


def _grid(spec):
    n, lo, hi = spec["n"], spec["pmin"], spec["pmax"]
    if spec["grid"] == "uniform":
        return np.linspace(lo, hi, n)
    w = np.cumsum([0.0] + [0.05 + 0.95 * j for j in spec["jit"][: n - 1]])
    return lo + (hi - lo) * w / w[-1]


def build(spec, sw):
    """-> dict with pressure, pseudopressure (placeholder), the eight PVT columns and So."""
    fam = spec["family"]
    if fam == "shipped":
        raw = _shipped()
        idx = np.arange(len(raw["pressure"]))[:: spec.get("thin", 1)]
        tab = {k: v[idx].copy() for k, v in raw.items()}
        p = tab["pressure"]
        # oil saturation as the repository's test fixture computes it (no mobile water)
        tab["So"] = (1 - sw) / ((tab["Rs"].max() - tab["Rs"]) * tab["Bg"] / tab["Bo"] / 5.61458 + 1)
        return tab
    p = _grid(spec)
    x = (p - p[0]) / (p[-1] - p[0])
    c = spec["coef"]
    # the caller's pseudopressure column is required by from_table but must be replaced by the computed one:
    # a deliberately meaningless (decreasing) placeholder makes a failure to do so visible
    tab = {"pressure": p, "pseudopressure": np.linspace(2.0, 1.0, len(p))}
    if fam == "constant":
        for k in PVT_COLS:
            tab[k] = np.full(len(p), c[k][0])
    elif fam == "linear":
        for k in PVT_COLS:
            a, b = c[k]
            tab[k] = a * (1 + b * x)
    elif fam == "kinked":  # bubble point at x_k: Rs and Bo rise up to it, then Rs is flat and Bo falls
        xk = spec["xk"]
        for k in PVT_COLS:
            a, b = c[k]
            tab[k] = a * (1 + b * x)
        tab["Rs"] = c["Rs"][0] * (1 + abs(c["Rs"][1]) * np.minimum(x, xk) / max(xk, 1e-9))
        tab["Bo"] = c["Bo"][0] * (1 + 0.4 * np.minimum(x, xk) - 0.05 * np.maximum(x - xk, 0.0))
    else:
        raise ValueError(fam)
    if not spec.get("with_rv", True):
        tab["Rv"] = np.zeros(len(p))
    so_lo, so_hi = spec["so"]
    tab["So"] = (1 - sw) * (so_lo + (so_hi - so_lo) * (x if spec.get("so_rising", True) else 1 - x))
    return tab


@st.composite
def table_spec(draw, nmax=60, families=("shipped", "constant", "linear", "linear", "kinked")):
    fam = draw(st.sampled_from(list(families)))
    if fam == "shipped":
        return {"family": "shipped", "thin": draw(st.sampled_from([1, 3, 10, 45]))}
    n = draw(st.integers(4, nmax))
    grid = draw(st.sampled_from(["uniform", "jitter"]))
    pmin = draw(st.floats(10.0, 500.0))
    spec = {"family": fam, "n": n, "grid": grid, "pmin": pmin, "pmax": pmin + draw(st.floats(200.0, 9000.0))}
    if grid == "jitter":
        spec["jit"] = [draw(st.floats(0.0, 1.0)) for _ in range(n - 1)]
    pos = lambda lo, hi: st.floats(lo, hi)  # noqa: E731
    slope = st.floats(-0.45, 0.9)
    spec["coef"] = {
        "Bo": [draw(pos(1.0, 2.0)), draw(slope)],
        "Bg": [draw(pos(5e-4, 0.2)), draw(st.floats(-0.9, 0.5))],
        "Bw": [draw(pos(0.95, 1.1)), draw(st.floats(-0.05, 0.05))],
        "Rs": [draw(pos(0.05, 2.0)), draw(slope)],
        "Rv": [draw(pos(1e-5, 1e-2)), draw(slope)],
        "mu_o": [draw(pos(0.2, 5.0)), draw(slope)],
        "mu_g": [draw(pos(0.01, 0.05)), draw(slope)],
        "mu_w": [draw(pos(0.2, 1.0)), draw(st.floats(-0.2, 0.2))],
    }
    spec["with_rv"] = draw(st.booleans())
    a, b = sorted([draw(st.floats(0.0, 1.0)), draw(st.floats(0.0, 1.0))])
    spec["so"] = [a, b]
    spec["so_rising"] = draw(st.booleans())
    if fam == "kinked":
        spec["xk"] = draw(st.floats(0.15, 0.85))
    return spec


@st.composite
def relperm_params(draw, swc_min=0.0):
    """Admissible Brooks-Corey set (as C14's generator)."""
    expo = st.one_of(st.sampled_from([1.0, 2.0, 3.0]), st.floats(1.0, 6.0))
    raw = [draw(st.one_of(st.just(0.0), st.floats(0.001, 0.5))) for _ in range(3)]
    s = sum(raw)
    if s > 0.9:
        raw = [r * 0.9 / s for r in raw]
    endp = st.one_of(st.sampled_from([1.0, 0.5]), st.floats(0.05, 1.0))
    return {
        "n_o": draw(expo), "n_w": draw(expo), "n_g": draw(expo),
        "S_or": raw[0], "S_wc": max(raw[1], swc_min), "S_gc": raw[2],
        "k_ro_max": draw(endp), "k_rw_max": draw(endp), "k_rg_max": draw(endp),
    }


def ref_densities(draw):
    lg = st.floats(-4.0, 2.0).map(lambda u: 10.0**u)
    rho = {"rho_o0": draw(lg), "rho_g0": draw(lg), "rho_w0": draw(lg)}
    # a component left out of the mass balance (reference density exactly 0, int or float) is an ordinary value of the
    # documented sums: water most often (oil-gas systems), sometimes one of the hydrocarbon components - never all
    k = draw(st.integers(0, 11))
    zero = draw(st.sampled_from([0.0, 0]))
    if k in (0, 1):
        rho["rho_w0"] = zero
    elif k == 2:
        rho["rho_o0"] = zero
    elif k == 3:
        rho["rho_g0"] = zero
    elif k == 4:
        rho["rho_w0"] = 1  # whole numbers given as ints, as in the repository's own test
    return rho


# --------------------------------------------------------------------------------------------------
# harness-side table lookup and the documented formulas


def lin(p_nodes, v_nodes):
    """Piecewise-linear lookup with linear extrapolation (what a PVT table means between and beyond nodes)."""
    p_nodes = np.asarray(p_nodes, float)
    v_nodes = np.asarray(v_nodes, float)

    def f(q):
        q = np.asarray(q, float)
        out = np.interp(q, p_nodes, v_nodes)
        lo = q < p_nodes[0]
        hi = q > p_nodes[-1]
        if np.any(lo):
            out = np.where(lo, v_nodes[0] + (q - p_nodes[0]) * (v_nodes[1] - v_nodes[0]) / (p_nodes[1] - p_nodes[0]), out)
        if np.any(hi):
            out = np.where(hi, v_nodes[-1] + (q - p_nodes[-1]) * (v_nodes[-1] - v_nodes[-2]) / (p_nodes[-1] - p_nodes[-2]), out)
        return out

    return f


def kr_lookup(kr_table):
    so = np.asarray(kr_table["So"], float)
    return {k: (lambda s, k=k: np.interp(np.asarray(s, float), so, np.asarray(kr_table[k], float))) for k in ("kro", "krg", "krw")}


def mobility_doc(tab, kr, rho, p, so):
    """Total mass mobility of docs/background.md (k and rho_ref set to 1)."""
    f = {k: lin(tab["pressure"], tab[k]) for k in PVT_COLS}
    kro, krg, krw = kr["kro"](so), kr["krg"](so), kr["krw"](so)
    oil = f["Rv"](p) * krg / (f["mu_g"](p) * f["Bg"](p)) + kro / (f["mu_o"](p) * f["Bo"](p))
    gas = krg / (f["mu_g"](p) * f["Bg"](p)) + f["Rs"](p) * kro / (f["mu_o"](p) * f["Bo"](p))
    wat = krw / (f["mu_w"](p) * f["Bw"](p))
    return rho["rho_o0"] * oil + rho["rho_g0"] * gas + rho["rho_w0"] * wat


def storage_doc(tab, rho, phi, sw, p, so, parts=False):
    """Stored mass per unit volume (the quantity under d/dp in the documented c), saturations held fixed.

    phi [ rho_o (Rv Sg/Bg + So/Bo) + rho_g (Rs So/Bo + Sg/Bg) + rho_w Sw/Bw ]  (the `S_g/b_o` of the alpha
    section of the document is a typo against its own mass-balance equations; B_g is meant)."""
    f = {k: lin(tab["pressure"], tab[k]) for k in ("Bo", "Bg", "Bw", "Rs", "Rv")}
    sg = 1 - so - sw
    t = [
        phi * rho["rho_o0"] * f["Rv"](p) * sg / f["Bg"](p),
        phi * rho["rho_o0"] * so / f["Bo"](p),
        phi * rho["rho_g0"] * f["Rs"](p) * so / f["Bo"](p),
        phi * rho["rho_g0"] * sg / f["Bg"](p),
        phi * rho["rho_w0"] * sw / f["Bw"](p),
    ]
    return t if parts else sum(t)


def library_pvt_dict(tab, rho):
    """The `pvt` argument of the library's functions: interp1d with extrapolation per column + densities."""
    from scipy.interpolate import interp1d

    d = {k: interp1d(tab["pressure"], tab[k], fill_value="extrapolate") for k in PVT_COLS}
    d.update(rho)
    return d


def library_kr_dict(kr_table):
    from scipy.interpolate import interp1d

    return {k: interp1d(kr_table["So"], kr_table[k]) for k in ("kro", "krg", "krw")}
