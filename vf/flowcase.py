"""A generated simulation case (table x pressure pair x nx x time grid x schedule x reservoir class) and its run.

Shared by C01, C03, C04, C17, C20.  The case record is JSON; `run(case)` builds everything through the
library's public API and returns a `Run` with the stored field and the quantities the oracles need.
"""

from __future__ import annotations

import math
from dataclasses import dataclass

import numpy as np
from hypothesis import strategies as st

from vf import forms, grids, tables
from vf.core import Inadmissible, lib


@st.composite
def sim_case(
    draw,
    nx_max=100,
    max_steps=200,
    classes=("single", "single", "single", "ideal"),
    table_nmax=120,
    with_library=True,
    time_kinds=("uniform", "quadratic", "geometric", "random", "big", "repeat", "intdays"),
    schedules=True,
    families=("power", "power1", "kinked", "realgas", "liquid"),
    subclasses=False,
    big_nx=False,
):
    cls = draw(st.sampled_from(list(classes)))
    nx = draw(st.one_of(st.integers(3, min(12, nx_max)), st.integers(3, nx_max), st.integers(3, nx_max).map(lambda v: v)))
    case = {"cls": cls, "nx": nx, "time": draw(grids.time_spec(max_steps, time_kinds))}
    if big_nx and draw(st.integers(0, 39)) == 0:
        # a very fine grid with a handful of steps (an implementation may switch solvers / storage with the grid size)
        case["nx"] = draw(st.integers(1500, 4500))
        case["time"] = {"kind": "steps", "steps": [draw(st.floats(1e-9, 1e-3)) for _ in range(draw(st.integers(2, 5)))], "start": 0.0}
    # how the fluid / reservoir objects reach the simulation: as constructed, or after copy.copy / copy.deepcopy / a
    # pickle round trip (worker processes, caches, dataclasses.replace): a copy is the same fluid
    case["object_path"] = draw(st.sampled_from(["direct"] * 5 + ["copy", "deepcopy", "pickle", "deepcopy-reservoir"]))
    if subclasses and cls == "single" and draw(st.integers(0, 5)) == 0:
        # a user subclass overriding the documented hook alpha_scaled (stress-sensitive permeability: the table's
        # diffusivity times a positive factor that falls with drawdown) and inheriting simulate
        case["subclass_gamma"] = draw(st.sampled_from([0.5, 1.5, 3.0]))
    # the form in which the initial and frac-face pressures are handed to the wrapper / reservoir (whole-number
    # pressures as Python or numpy ints, numpy float scalars, 0-d arrays): one case in three
    case["scalar_form"] = draw(st.sampled_from(["float", "float", "float", "float", "int", "np.int64", "np.float64", "0d-float64"]))
    if cls == "ideal":
        pi = draw(st.floats(100.0, 15000.0))
        ratio = draw(st.one_of(st.floats(0.01, 0.99), st.floats(1.0, 5.0).map(lambda u: 1.0 - 10.0 ** (-u))))
        case.update({"p_i": pi, "p_f": pi * ratio, "schedule": {"kind": "none"}})
        return case
    if cls == "twophase":
        # shipped oil+water tables through FlowPropertiesTwoPhase.from_table (user-diffusivity branch of the wrapper)
        from vf import mptables

        rp = draw(mptables.relperm_params())
        case.update(
            {
                "mp_table": {"family": "shipped", "thin": draw(st.sampled_from([1, 3, 10]))},
                "relperm": rp,
                "Sw": rp["S_wc"] * draw(st.sampled_from([1.0, 0.5, 0.0])),
                "rho": {"rho_o0": 0.8, "rho_g0": draw(st.sampled_from([1.03e-3, 1e-2])), "rho_w0": 1.0},
                "phi": draw(st.floats(0.05, 0.3)),
                "pair": draw(tables.pressure_pair()),
                "schedule": draw(grids.schedule_spec()) if schedules else {"kind": "none"},
            }
        )
        return case
    case["table"] = draw(tables.table_spec(table_nmax, with_library, families))
    case["container"] = draw(st.sampled_from(tables.CONTAINERS))
    # one table in eight is handed over with its rows from high to low pressure (the wrapper's interpolators sort)
    case["rows"] = "descending" if draw(st.integers(0, 7)) == 0 else "ascending"
    case["pair"] = draw(tables.pressure_pair())
    case["schedule"] = draw(grids.schedule_spec()) if schedules else {"kind": "none"}
    return case


@dataclass
class Run:
    case: dict
    res: object  # the reservoir object
    fluid: object
    tab: dict | None
    time: np.ndarray
    m: np.ndarray  # stored pseudopressure field, shape (nt, nx)
    m_i: float
    m_f: np.ndarray  # frac-face scaled pseudopressure per level (constant array without schedule)
    p_f: float
    p_i: float
    schedule: np.ndarray | None
    inv_h2: float  # the mesh constant 1/h^2 the documented scheme uses for this class

    @property
    def d(self):
        return float(self.m_i - np.min(self.m_f))

    @property
    def constant_drawdown(self):
        return self.schedule is None or bool(np.all(self.schedule == self.schedule[0]))

    def tol(self):
        """Rounding-level tolerance on field values (DESIGN.md C01)."""
        return 1e-9 * abs(self.m_i) + 1e-6 * self.d

    def alpha_scaled(self, m):
        return np.asarray(self.res.alpha_scaled(np.asarray(m, float)), float)


def _formed_pair(case, p_f, p_i, lo, hi):
    """(p_f, p_i, form): the pair as the generated scalar form can carry it (whole numbers for integer forms), or the
    original pair with form 'float' when rounding would leave the table or close the drawdown."""
    form = case.get("scalar_form", "float")
    if form == "float":
        return p_f, p_i, form
    qf, qi = forms.representable(p_f, form), forms.representable(p_i, form)
    if lo <= qf < qi <= hi and (qi - qf) >= 0.5 * (p_i - p_f):
        return qf, qi, form
    return p_f, p_i, "float"


def build_fluid(case):
    """-> (tab, fluid, p_f, p_i) for table-based classes."""
    from bluebonnet.flow import FlowProperties

    tab = tables.build(case["table"])
    p_f, p_i = tables.resolve_pair(tab, case["pair"])
    p_f, p_i, form = _formed_pair(case, p_f, p_i, float(tab["pressure"][0]), float(tab["pressure"][-1]))
    if case.get("rows") == "descending":
        given = {c: v[::-1].copy() for c, v in tab.items()}
        try:
            fluid = FlowProperties(tables.as_container(given, case["container"]), forms.scalar(p_i, form))
        except Exception as e:  # noqa: BLE001 - a wrapper may legitimately insist on increasing pressure
            raise Inadmissible(f"table with descending rows rejected by the wrapper ({type(e).__name__})") from e
        return tab, fluid, p_f, p_i
    fluid = lib("FlowProperties", FlowProperties, tables.as_container(tab, case["container"]), forms.scalar(p_i, form))
    return tab, fluid, p_f, p_i


def build_twophase(case):
    """-> (fluid, p_f, p_i, first table pressure) for the 'twophase' class, or None if the table is inadmissible."""
    import warnings

    from bluebonnet.flow import FlowPropertiesTwoPhase, RelPermParams, relative_permeabilities_twophase

    from vf import mptables as mp

    tab = mp.build(case["mp_table"], case["Sw"])
    df_kr = lib("relative_permeabilities_twophase", relative_permeabilities_twophase, RelPermParams(**case["relperm"]), case["Sw"])
    kr_table = {k: np.asarray(df_kr[k], float) for k in ("So", "Sg", "Sw", "kro", "krg", "krw")}
    lam = mp.mobility_doc(tab, mp.kr_lookup(kr_table), case["rho"], tab["pressure"], tab["So"])
    st_hi = mp.storage_doc(tab, case["rho"], case["phi"], case["Sw"], tab["pressure"] + 0.5, tab["So"])
    st_lo = mp.storage_doc(tab, case["rho"], case["phi"], case["Sw"], tab["pressure"] - 0.5, tab["So"])
    if not (np.all(lam > 0) and np.all(st_hi - st_lo > 0)):
        return None  # "every fluid table with positive diffusivity": this one is not
    p = tab["pressure"]
    k = min(len(p) - 1, max(3, int(round(case["pair"]["pi_frac"] * (len(p) - 1)))))
    p_i = float(p[k])  # on a node: the user-diffusivity branch gives m_i = 1 there
    p_f = max(float(p[1]), min(case["pair"]["ratio"] * p_i, float(p[k - 1])))
    with warnings.catch_warnings():
        warnings.simplefilter("ignore")
        fluid = lib("FlowPropertiesTwoPhase.from_table", FlowPropertiesTwoPhase.from_table, dict(tab), dict(kr_table), dict(case["rho"]), case["phi"], case["Sw"], p_i)
    return fluid, p_f, p_i, float(p[1])


def _copied(obj, how):
    import copy
    import pickle

    if how == "copy":
        return copy.copy(obj)
    if how == "deepcopy":
        return copy.deepcopy(obj)
    if how == "pickle":
        return pickle.loads(pickle.dumps(obj))
    return obj


def _stress_sensitive(base, gamma):
    class StressSensitiveReservoir(base):
        def alpha_scaled(self, pseudopressure):
            m_i = float(self.fluid.m_i)
            drawdown = np.clip((m_i - np.asarray(pseudopressure, float)) / m_i, 0.0, 1.0)
            return super().alpha_scaled(pseudopressure) * np.exp(-gamma * drawdown)

    return StressSensitiveReservoir


def run(case, simulate=True) -> Run:
    from bluebonnet.flow import IdealReservoir, SinglePhaseReservoir

    time = grids.build_time(case["time"])
    nx = case["nx"]
    if case["cls"] == "ideal":
        p_f, p_i, form = _formed_pair(case, case["p_f"], case["p_i"], 0.0, float("inf"))
        res = IdealReservoir(nx, forms.scalar(p_f, form), forms.scalar(p_i, form), None)
        if simulate:
            lib("IdealReservoir.simulate", res.simulate, time)
        m = np.asarray(res.pseudopressure, float) if simulate else None
        return Run(case, res, None, None, time, m, 1.0, np.zeros(len(time)), p_f, p_i, None, float((nx - 1) ** 2))
    if case["cls"] == "twophase":
        from bluebonnet.flow import TwoPhaseReservoir

        built = build_twophase(case)
        if built is None:
            raise Inadmissible("two-phase table without positive mobility / storage derivative")
        fluid, p_f, p_i, p_lo = built
        tab = None
        res = TwoPhaseReservoir(nx, p_f, p_i, fluid, case["Sw"])
        sched = None  # TwoPhaseReservoir.simulate takes no schedule
    else:
        tab, fluid, p_f, p_i = build_fluid(case)
        how = case.get("object_path", "direct")
        if how in ("copy", "deepcopy", "pickle"):
            fluid = lib(f"FlowProperties after {how}", _copied, fluid, how)
        if case.get("subclass_gamma"):
            SinglePhaseReservoir = _stress_sensitive(SinglePhaseReservoir, float(case["subclass_gamma"]))
        form = case.get("scalar_form", "float") if forms.representable(p_i, case.get("scalar_form", "float")) == p_i and forms.representable(p_f, case.get("scalar_form", "float")) == p_f else "float"
        res = SinglePhaseReservoir(nx, forms.scalar(p_f, form), forms.scalar(p_i, form), fluid)
        if case.get("object_path") == "deepcopy-reservoir":
            res = lib("SinglePhaseReservoir after deepcopy", _copied, res, "deepcopy")
            fluid = res.fluid
        p_lo = float(tab["pressure"][0])
        sched = grids.build_schedule(case["schedule"], len(time), p_f, p_i, p_lo)
    if simulate:
        if sched is None:
            lib("SinglePhaseReservoir.simulate", res.simulate, time)
        else:
            # the schedule is handed over as an array or (one case in four, by the case hash) as a plain list
            as_list = case.get("schedule", {}).get("kind") in ("stepdown", "arbitrary") and len(case["schedule"].get("levels", [])) % 4 == 3
            lib("SinglePhaseReservoir.simulate(schedule)", res.simulate, time, sched.tolist() if as_list else sched.copy())
    m_i = float(fluid.m_i)
    pf_arr = np.full(len(time), p_f) if sched is None else sched
    m_f = np.asarray(fluid.m_scaled_func(pf_arr), float)
    m = np.asarray(res.pseudopressure, float) if simulate else None
    return Run(case, res, fluid, tab, time, m, m_i, m_f, p_f, p_i, sched, float(nx**2))


def labels(case, r: Run | None = None):
    out = {"object_path": case.get("object_path", "direct"), "subclass": bool(case.get("subclass_gamma")), "cls": case["cls"], "scalar_form": case.get("scalar_form", "float"), "grid": grids.grid_label(case["time"]), "nx": "3-12" if case["nx"] <= 12 else ("13-60" if case["nx"] <= 60 else ("61-150" if case["nx"] <= 150 else ">150"))}
    if case["cls"] == "twophase":
        out["table"] = "shipped:oil+water (two-phase)"
    elif case["cls"] != "ideal":
        t = case["table"]
        out["table"] = t["family"] + (":" + t["name"] if t["family"] == "shipped" else (":k=1" if tables.constant_diffusivity(t) else ""))
        out["schedule"] = case["schedule"]["kind"]
        out["rows"] = case.get("rows", "ascending")
    if r is not None:
        ratio = r.p_f / r.p_i
        out["pf_over_pi"] = "<0.5" if ratio < 0.5 else ("0.5-0.9" if ratio < 0.9 else ("0.9-0.99" if ratio < 0.99 else ("0.99-0.999" if ratio < 0.999 else ">0.999")))
    return out


def sound_field(res_obj, r: Run, result):
    """Basic sanity of the stored arrays before any oracle uses them (a broken field is a violation, not a crash)."""
    m, t = r.m, r.time
    if m.shape != (len(t), r.case["nx"]):
        result.bad("field/shape", f"pseudopressure shape {m.shape} for {len(t)} times and nx={r.case['nx']}")
        return False
    if not np.all(np.isfinite(m)):
        n, j = np.argwhere(~np.isfinite(m))[0]
        result.bad("field/finite", f"pseudopressure[{n},{j}]={m[n, j]!r} (p_f={r.p_f!r}, p_i={r.p_i!r}, nx={r.case['nx']}, dt={t[min(n, len(t) - 1)] - t[max(n - 1, 0)]!r})")
        return False
    if not np.array_equal(np.asarray(res_obj.time, float), t):
        result.bad("field/time", "reservoir.time differs from the time grid passed to simulate")
        return False
    return True
