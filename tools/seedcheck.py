#!/venv/bin/python
"""Confirm a seeded change (patch.diff + demo.py) on a scratch copy of /repo HEAD and run the checks against it.

usage: tools/seedcheck.py <dir containing patch.diff and demo.py> [--checks C01,C04] [--tier quick] [--skip-tests]

Steps (all on a scratch git worktree under $TMPDIR, removed afterwards; /repo itself is never modified):
  1. demo on the clean tree            -> must exit 0
  2. apply patch; repository test suite -> must still give 69 passed
  3. demo on the patched tree           -> must exit non-zero
  4. ./check <ID> for the requested properties with VERIF_REPO_SRC pointing at the patched tree
Prints a JSON summary (also usable as the "ran" field of seeded/<id>/meta.json).
"""

from __future__ import annotations

import argparse
import json
import os
import re
import shutil
import subprocess
import sys
import tempfile
import time

HERE = os.path.dirname(os.path.dirname(os.path.abspath(__file__)))


def sh(cmd, cwd=None, env=None, timeout=1800):
    p = subprocess.run(cmd, shell=True, cwd=cwd, env=env, capture_output=True, text=True, timeout=timeout)
    return p.returncode, p.stdout + p.stderr


def main():
    ap = argparse.ArgumentParser()
    ap.add_argument("dir")
    ap.add_argument("--checks", default="")
    ap.add_argument("--tier", default="quick")
    ap.add_argument("--skip-tests", action="store_true")
    ap.add_argument("--all", action="store_true", help="run all 20 checks")
    a = ap.parse_args()
    d = os.path.abspath(a.dir)
    patch, demo = os.path.join(d, "patch.diff"), os.path.join(d, "demo.py")
    meta = json.load(open(os.path.join(d, "meta.json"))) if os.path.exists(os.path.join(d, "meta.json")) else {}
    tmp = tempfile.mkdtemp(prefix="bbseed_")
    wt = os.path.join(tmp, "repo")
    out = {"dir": d}
    try:
        rc, o = sh(f"git -C /repo worktree add -q --detach {wt} HEAD")
        if rc:
            print(o)
            return 2
        env = dict(os.environ, PYTHONPATH=os.path.join(wt, "src"), MPLBACKEND="Agg")
        rc, o = sh(f"/venv/bin/python {demo}", cwd=wt, env=env)
        out["demo_clean_exit"] = rc
        out["demo_clean_tail"] = o.strip().splitlines()[-2:]
        rc, o = sh(f"git -C {wt} apply {patch}")
        out["patch_applies"] = rc == 0
        if rc:
            out["patch_error"] = o[-400:]
            print(json.dumps(out, indent=1))
            return 1
        if not a.skip_tests:
            rc, o = sh("/venv/bin/python -m pytest --no-cov -q -p no:cacheprovider -n 8 --timeout=900 tests", cwd=wt, env=env)
            m = re.search(r"(\d+) failed, (\d+) passed", o) or re.search(r"(\d+) passed", o)
            out["tests"] = m.group(0) if m else o[-300:]
            failed = sorted(set(re.findall(r"FAILED (\S+)", o)))
            out["tests_failed_outside_baseline"] = [f for f in failed if "test_plots.py" not in f and "test_fit_plot" not in f]
        rc, o = sh(f"/venv/bin/python {demo}", cwd=wt, env=env)
        out["demo_patched_exit"] = rc
        out["demo_patched_tail"] = o.strip().splitlines()[-3:]
        checks = [c for c in a.checks.split(",") if c]
        if a.all:
            checks = [f"C{i:02d}" for i in range(1, 21)]
        if not checks and meta.get("property"):
            checks = [meta["property"]]
        out["checks"] = {}
        for c in checks:
            t0 = time.time()
            env2 = dict(os.environ, VERIF_REPO_SRC=os.path.join(wt, "src"))
            p = subprocess.run([os.path.join(HERE, "check"), c, "--tier", a.tier, "--no-evidence"], capture_output=True, text=True, env=env2)
            lines = [l.strip() for l in p.stdout.splitlines() if l.strip().startswith(("violated", "HARNESS"))]
            out["checks"][c] = {"exit": p.returncode, "seconds": round(time.time() - t0, 1), "first": lines[:2]}
        print(json.dumps(out, indent=1))
        return 0
    finally:
        sh(f"git -C /repo worktree remove --force {wt}")
        shutil.rmtree(tmp, ignore_errors=True)


if __name__ == "__main__":
    sys.exit(main())
