#!/venv/bin/python
"""Regenerate section 8 of DESIGN.md (between the SENSITIVITY markers) from mutants/KILL_MATRIX.json and seeded/*/meta.json."""
import collections, glob, json, os, re
HERE = os.path.dirname(os.path.dirname(os.path.abspath(__file__)))
rows = json.load(open(os.path.join(HERE, "mutants", "KILL_MATRIX.json")))
by = collections.defaultdict(lambda: [0, 0, []])
for r in rows:
    b = by[r["property"]]
    b[1] += 1
    b[0] += r["verdict"] == "killed"
    b[2].append(os.path.basename(r["mutant"]).replace(".diff", ""))
out = []
out.append("## 8. Sensitivity: which checks catch which broken variants\n")
out.append("### 8.1 Own mutants (`mutants/*.diff`, `tools/selftest.py`, quick tier, scratch copy of `/repo/src`)\n")
out.append("Each diff names the properties it is expected to break; a pair (mutant, property) is *killed* when the quick check exits 1.")
out.append(f"Last full run (`mutants/KILL_MATRIX.json`): **{sum(b[0] for b in by.values())} / {sum(b[1] for b in by.values())} pairs killed**.")
out.append("Variants found to be property-preserving were relabelled as negative controls (`# breaks: NONE`): `c03-hinv-control` (h_inv = nx vs nx-1 is within first order and is *not* flagged), `c14-water-uses-oil-exponent`, `c14-denominator-no-sgc` (range / zero / monotone clauses of C14 still hold); equivalent mutants were deleted (branch `>=` vs `>` at a point of continuity, `quad` with a looser `epsrel`, GMRES(n) that cannot fail).\n")
out.append("| property | killed / expected | mutants |")
out.append("|---|---|---|")
for pid in sorted(by):
    k, n, names = by[pid]
    out.append(f"| {pid} | {k} / {n} | {', '.join(sorted(names))} |")
out.append("")
out.append("### 8.2 Seeded changes written by independent sub-agents (`seeded/<name>/`)\n")
out.append("Each sub-agent saw only the property text and a scratch worktree (nothing from `/verif`) and delivered a patch, a demonstration that passes without and fails with the patch, and the repository suite still at 69 passed. Every one was confirmed with `tools/seedcheck.py` (clean demo, patch applies, suite, patched demo, then the checks through `VERIF_REPO_SRC`). Round 2 asked for a different mechanism and clause than round 1; rounds 3 and 4 (names ending in `c` and `d`) steered each agent to clauses and trigger genres not used before, round 5 (`e`) was unsteered again, round 6 (`f`) asked for the two genres that had produced the most misses - stale or under-keyed caches and absolute tolerances / thresholds, round 7 (`g`) for changes that bite only at the ends of the admissible domain, round 8 (`h`) for two cooperating edits that are each harmless alone or violations that need a call sequence / argument combination, round 9 (`i`) for not-quite-equivalent rewrites, shared or leftover state and the secondary / rejection clauses, round 10 (`j`) for changes that a thorough property-based harness would still miss (section 6.3). Patches are kept applicable to the current `/repo` HEAD: after each later `fix:` commit the ones touching the repaired lines were rebased.\n")
out.append("| seeded change | what it needs to manifest | caught by (quick tier) | caught as first written? |")
out.append("|---|---|---|---|")
for f in sorted(glob.glob(os.path.join(HERE, "seeded", "*", "meta.json"))):
    m = json.load(open(f))
    c = m["confirmed"]
    caught = ", ".join(k for k, v in c["result"]["checks"].items() if v["exit"] == 1) or "-"
    needs = re.sub(r"\s+", " ", m["needs"])[:170]
    out.append(f"| `{os.path.basename(os.path.dirname(f))}`: {re.sub(chr(10), ' ', m['summary'])[:150]} | {needs} | {caught} | {c['caught_by_checks_as_first_written']}: {c['note'][:260]} |")
out.append("")
ben = sorted(glob.glob(os.path.join(HERE, "benign", "*", "meta.json")))
if ben:
    out.append("### 8.3 Property-preserving changes written by independent sub-agents (`benign/<name>/`): negative controls\n")
    out.append("Each sub-agent saw only the property text and a scratch worktree and was asked for two realistic changes that alter *how* the anchored code computes its results (another exact solver, `np.interp` for `interp1d`, Horner forms, re-associated arithmetic, hand-written quadrature, correct caching, input coercion, new exception subclasses, extra keywords) while every clause of the property stays true; `tools/benigncheck.py` applies each to a scratch worktree and runs the quick checks of every property anchored in the touched files through `VERIF_REPO_SRC`. **Every check must exit 0**; an alarm here is a false alarm of the harness (or a change that is not property-preserving after all) and is analysed in section 6.3. Five rounds: b3 (`Cxxa`, `Cxxb`), b4 (`…2`), b5 (`…3`: caching done correctly, tolerances and guards done correctly), b6 (`…4`: scale-aware numerics and exact limit handling at the ends of the admissible domain), b7 (`…5`: rewrites that ARE equivalent to rounding level, input normalisation done right, two-site refactorings done right - the mirror image of seeded rounds 8-9; 24 patches, all quiet).\n")
    out.append("| change | what it does | checks run (all quiet unless noted) |")
    out.append("|---|---|---|")
    for f in ben:
        m = json.load(open(f))
        d = m["description"]
        summ = d.get("summary", "") if isinstance(d, dict) else str(d)
        num = d.get("what_changes_numerically", "") if isinstance(d, dict) else ""
        checks = ", ".join(m["ran"].get("checks", {}).keys())
        al = m.get("alarms") or []
        if m.get("base"):
            summ = f"*(recorded against /repo {m['base']}; {m.get('note_base', '')})* " + summ
        if m.get("preserves_property") is False:
            summ = "**(turned out not to preserve the property: " + m.get("note", "")[:220] + ")** " + summ
        out.append(f"| `{os.path.basename(os.path.dirname(f))}` | {re.sub(r'\s+', ' ', summ)[:260]} *({re.sub(r'\s+', ' ', str(num))[:160]})* | {checks}{' - **alarm: ' + ', '.join(al) + '**' if al else ''} |")
    out.append("")
text = "\n".join(out) + "\n"
p = os.path.join(HERE, "DESIGN.md")
s = open(p).read()
a, b = "<!-- SENSITIVITY:BEGIN -->", "<!-- SENSITIVITY:END -->"
if a in s:
    s = s[: s.index(a) + len(a)] + "\n" + text + s[s.index(b):]
else:
    s = s.replace("## Appendix A", a + "\n" + text + b + "\n\n---------------------------------------------------------------------------------------------------\n\n## Appendix A")
open(p, "w").write(s)
print("section 8 written:", len(rows), "mutant pairs,", len(glob.glob(os.path.join(HERE, 'seeded', '*', 'meta.json'))), "seeded changes")
