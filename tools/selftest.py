#!/venv/bin/python
"""Sensitivity self-test: apply each diff in /verif/mutants (and /verif/seeded/*/patch.diff) to a scratch copy
of /repo/src and expect the quick check of the named property to exit 1.

usage: tools/selftest.py [--only C12] [--file mutants/x.diff] [--tier quick] [--jobs 4] [--seeded]

A diff names the properties it should break in a header line  `# breaks: C12 C11`  (seeded changes: meta.json).
The scratch copy lives under $TMPDIR/bbmut_* (outside /repo and /verif) and is deleted afterwards.
Not a registered check: it measures the checks, it does not decide a property.
"""

from __future__ import annotations

import argparse
import glob
import json
import os
import shutil
import subprocess
import sys
import tempfile
import time
from concurrent.futures import ThreadPoolExecutor

HERE = os.path.dirname(os.path.dirname(os.path.abspath(__file__)))


def breaks_of(path):
    if path.endswith("patch.diff"):
        meta = os.path.join(os.path.dirname(path), "meta.json")
        if os.path.exists(meta):
            m = json.load(open(meta))
            b = m.get("breaks") or m.get("property")
            return b if isinstance(b, list) else [b]
    for line in open(path):
        if line.startswith("# breaks:"):
            return line.split(":", 1)[1].split()
    return []


def run_one(path, pid, tier, scale):
    tmp = tempfile.mkdtemp(prefix="bbmut_")
    try:
        shutil.copytree("/repo/src", os.path.join(tmp, "src"))
        os.makedirs(os.path.join(tmp, "tests"), exist_ok=True)
        os.symlink("/repo/tests/data", os.path.join(tmp, "tests", "data"))
        p = subprocess.run(["patch", "-p1", "-s", "-d", tmp, "-i", os.path.abspath(path)], capture_output=True, text=True)
        if p.returncode != 0:
            return path, pid, "PATCH-FAILED", 0.0, p.stdout + p.stderr
        env = dict(os.environ, VERIF_REPO_SRC=os.path.join(tmp, "src"), VERIF_SCALE=str(scale))
        t0 = time.time()
        r = subprocess.run([os.path.join(HERE, "check"), pid, "--tier", tier, "--no-evidence"], capture_output=True, text=True, env=env)
        dt = time.time() - t0
        verdict = {0: "MISSED", 1: "killed", 2: "HARNESS-ERROR"}.get(r.returncode, f"exit{r.returncode}")
        lines = [l for l in r.stdout.splitlines() if l.startswith(("  violated", "HARNESS"))][:3]
        return path, pid, verdict, dt, "\n".join(lines) + (("\n" + r.stderr[-500:]) if r.returncode == 2 else "")
    finally:
        shutil.rmtree(tmp, ignore_errors=True)


def main():
    ap = argparse.ArgumentParser()
    ap.add_argument("--only")
    ap.add_argument("--file", action="append")
    ap.add_argument("--tier", default="quick")
    ap.add_argument("--jobs", type=int, default=2)
    ap.add_argument("--scale", type=float, default=1.0)
    ap.add_argument("--seeded", action="store_true")
    ap.add_argument("--out")
    a = ap.parse_args()
    files = a.file or sorted(glob.glob(os.path.join(HERE, "mutants", "*.diff")))
    if a.seeded:
        files = sorted(glob.glob(os.path.join(HERE, "seeded", "*", "patch.diff")))
    jobs = []
    for f in files:
        for pid in breaks_of(f):
            if a.only and pid != a.only:
                continue
            if not os.path.exists(os.path.join(HERE, "vf", "props", pid.lower() + ".py")):
                continue
            jobs.append((f, pid))
    rows = []
    with ThreadPoolExecutor(max_workers=a.jobs) as ex:
        for path, pid, verdict, dt, info in ex.map(lambda j: run_one(j[0], j[1], a.tier, a.scale), jobs):
            name = os.path.relpath(path, HERE)
            print(f"{verdict:14s} {pid} {name} ({dt:.0f}s)")
            if info.strip():
                print("    " + info.strip().replace("\n", "\n    "))
            sys.stdout.flush()
            rows.append({"mutant": name, "property": pid, "verdict": verdict, "seconds": round(dt, 1), "info": info.strip()[:400]})
    if a.out:
        json.dump(rows, open(a.out, "w"), indent=1)
    missed = [r for r in rows if r["verdict"] != "killed"]
    print(f"{len(rows) - len(missed)}/{len(rows)} killed")
    return 1 if missed else 0


if __name__ == "__main__":
    sys.exit(main())
