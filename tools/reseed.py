#!/venv/bin/python
"""Re-run every kept seeded change against the current checks: tools/reseed.py [--only substr] [--jobs N]

For each seeded/<name>/ applies patch.diff to a scratch copy of /repo/src (never /repo itself) and runs the checks
recorded in meta.json as catching it (exit 1 at the time it was kept); every one of them must still exit 1.
Writes seeded/RESEED.json and prints the pairs that are no longer caught."""
import argparse, concurrent.futures, glob, json, os, shutil, subprocess, sys, tempfile
HERE = os.path.dirname(os.path.dirname(os.path.abspath(__file__)))


def one(d):
    meta = json.load(open(os.path.join(d, "meta.json")))
    # "incidental": checks that happened to exit 1 when the change was kept but for a reason that is not their property
    # (e.g. an overflow to inf that one generated case ran into); they are not required to keep catching it
    checks = [c for c, v in meta["confirmed"]["result"]["checks"].items() if v["exit"] == 1 and c not in meta.get("incidental", [])]
    tmp = tempfile.mkdtemp(prefix="bbreseed_")
    out = {"name": os.path.basename(d), "checks": {}}
    try:
        shutil.copytree("/repo/src", os.path.join(tmp, "src"))
        p = subprocess.run(["patch", "-p1", "-s", "-d", tmp, "-i", os.path.join(d, "patch.diff")], capture_output=True, text=True)
        if p.returncode:
            out["error"] = "patch does not apply: " + (p.stdout + p.stderr)[-200:]
            return out
        for c in checks:
            env = dict(os.environ, VERIF_REPO_SRC=os.path.join(tmp, "src"), VERIF_WORKERS=os.environ.get("RESEED_WORKERS", "8"))
            q = subprocess.run([os.path.join(HERE, "check"), c, "--no-evidence"], capture_output=True, text=True, env=env)
            out["checks"][c] = q.returncode
        return out
    finally:
        shutil.rmtree(tmp, ignore_errors=True)


def main():
    ap = argparse.ArgumentParser()
    ap.add_argument("--only", default="")
    ap.add_argument("--jobs", type=int, default=2)
    a = ap.parse_args()
    dirs = [d for d in sorted(glob.glob(os.path.join(HERE, "seeded", "*"))) if os.path.isdir(d) and a.only in d]
    res = []
    with concurrent.futures.ThreadPoolExecutor(a.jobs) as ex:
        for r in ex.map(one, dirs):
            res.append(r)
            bad = [c for c, rc in r["checks"].items() if rc != 1]
            print(("MISSED " if bad or r.get("error") else "caught ") + r["name"], r["checks"], r.get("error", ""), flush=True)
    if not a.only:
        json.dump(res, open(os.path.join(HERE, "seeded", "RESEED.json"), "w"), indent=1)
    n_bad = sum(1 for r in res if r.get("error") or any(rc != 1 for rc in r["checks"].values()))
    print(f"{len(res) - n_bad}/{len(res)} seeded changes still caught by every check that caught them when kept")
    return 1 if n_bad else 0


if __name__ == "__main__":
    sys.exit(main())
