#!/venv/bin/python
"""Regenerate /verif/MANIFEST.json from the property modules (keeps ids, levels and commands consistent)."""

from __future__ import annotations

import importlib
import json
import os
import sys

HERE = os.path.dirname(os.path.dirname(os.path.abspath(__file__)))
sys.path.insert(0, HERE)

props = [json.loads(line) for line in open(os.path.join(HERE, "properties.jsonl"))]
NOT_BUILT = {}

checks, na, engines = [], [], {}
for p in props:
    pid = p["id"]
    path = os.path.join(HERE, "vf", "props", pid.lower() + ".py")
    if not os.path.exists(path):
        na.append({"property_id": pid, "reason": NOT_BUILT.get(pid, "check not built yet in this session; planned in DESIGN.md section 3 (no technique obstacle)")})
        continue
    from vf import env  # noqa: F401

    mod = importlib.import_module(f"vf.props.{pid.lower()}")
    checks.append(
        {
            "property_id": pid,
            "quick_cmd": f"./check {pid} --tier quick",
            "thorough_cmd": f"./check {pid} --tier thorough",
            "evidence_file": f"evidence/{pid}.json",
            "replay_cmd_template": f"./check {pid} --replay {{path}}",
            "engine": getattr(mod, "ENGINE", "hypothesis"),
            "level_claimed": {
                "category": mod.LEVEL,
                "text": getattr(mod, "LEVEL_TEXT", "Generated-input search (Hypothesis) against oracles independent of the code under test; finds violations on the explored inputs, does not prove absence."),
                "design_ref": f"DESIGN.md section 3 / {pid} (plan), 6.2 and 6.3 (as built, corrections), 8 (sensitivity)",
            },
            "level_note": getattr(mod, "LEVEL_NOTE", "Trusted: NumPy/SciPy/pandas, Hypothesis, the harness's own reference formulas as listed in the evidence file's assumptions."),
            "technique": getattr(mod, "TECHNIQUE", "property-based testing (Hypothesis), sharded over 16 processes"),
        }
    )
    engines.setdefault(getattr(mod, "ENGINE", "hypothesis"), []).append(pid)

manifest = {
    "version": 1,
    "setup_cmd": "./setup.sh",
    "hooks": {
        "guard": "BLUEBONNET_VERIF",
        "enable": "no source hooks: bluebonnet is pure Python and everything the checks observe is public API; checks import /repo/src fresh in every process (solver calls are intercepted from the harness side)",
        "baseline_off_cmd": "cd /repo && /venv/bin/python -m pytest -ra -q -p no:cacheprovider --timeout=900 --continue-on-collection-errors",
        "source_commits": [],
        "add_only": True,
    },
    "engines": [
        {
            "name": name,
            "path": "vf/runner.py",
            "serves_properties": ids,
            "kind_free_text": {
                "hypothesis": "Hypothesis 6.168 property-based testing; 16 worker processes, seed = VERIF_SEED*1000 + worker; collect-then-continue over oracle ids; JSON replay files that bypass Hypothesis",
                "hypothesis-stateful": "Hypothesis RuleBasedStateMachine (call histories) compared with a fresh-object replay model",
            }.get(name, name),
        }
        for name, ids in sorted(engines.items())
    ]
    + [
        {
            "name": "atheris",
            "path": "vf/fuzz.py",
            "serves_properties": ["C09", "C11", "C14"],
            "kind_free_text": "second driver in the thorough tier only: the same strategy + check_case (oracle inside the target) driven by atheris/libFuzzer through Hypothesis's fuzz_one_input, 16 processes, -runs=N -seed=VERIF_SEED*1000+k; counts and any failing case are merged into the evidence file",
        }
    ],
    "checks": checks,
    "notes": "Every check: exit 0 = held on everything explored, exit 1 + 'VIOLATION property=<id> replay=<path>' = violation, exit 2 = harness error. Known findings: known_findings.txt (KNOWN-FINDING lines, exit 0). Repairs of genuine defects are the 'fix:' commits in /repo listed in known_findings.txt as 'fixed:' entries; their reproductions are in corpus/<id>/ and are replayed first by every run.",
    "not_applicable": na,
}
with open(os.path.join(HERE, "MANIFEST.json"), "w") as f:
    json.dump(manifest, f, indent=1)
    f.write("\n")
print(f"{len(checks)} checks, {len(na)} not_applicable")
