#!/venv/bin/python
"""Keep the property-preserving changes (negative controls): tools/keepbenign.py <root> <results dir> [name suffix]

For every <root>/<ID>/out/patch_{a,b}.diff with a result <results>/<ID>{a,b}.json (written by tools/benigncheck.py)
copies patch, demo.py and a meta.json (the author's description + what was run + the outcome) to /verif/benign/<ID><v>/."""
import json, os, shutil, sys
HERE = os.path.dirname(os.path.dirname(os.path.abspath(__file__)))
root, resdir = sys.argv[1:3]
suffix = sys.argv[3] if len(sys.argv) > 3 else ""
n = 0
for pid in sorted(os.listdir(root)):
    out = os.path.join(root, pid, "out")
    if not os.path.isdir(out):
        continue
    try:
        meta = json.load(open(os.path.join(out, "meta.json")))
    except Exception:  # noqa: BLE001
        meta = {}
    for v in "ab":
        patch = os.path.join(out, f"patch_{v}.diff")
        rj = os.path.join(resdir, f"{pid}{v}.json")
        if not (os.path.exists(patch) and os.path.exists(rj)):
            continue
        try:
            ran = json.load(open(rj))
        except Exception:  # noqa: BLE001
            print("unparsable result", rj)
            continue
        dst = os.path.join(HERE, "benign", f"{pid}{v}{suffix}")
        os.makedirs(dst, exist_ok=True)
        shutil.copy(patch, os.path.join(dst, "patch.diff"))
        if os.path.exists(os.path.join(out, "demo.py")):
            shutil.copy(os.path.join(out, "demo.py"), os.path.join(dst, "demo.py"))
        ran.pop("patch", None)
        m = {
            "property": pid,
            "preserves_property": True,
            "author": "independent sub-agent (saw only the property text and a scratch worktree); asked for a realistic change that alters how results are computed but keeps every clause of the property true",
            "description": meta.get(v, meta),
            "ran": ran,
            "alarms": ran.get("alarms", []),
        }
        json.dump(m, open(os.path.join(dst, "meta.json"), "w"), indent=1)
        n += 1
print("kept", n, "property-preserving changes")
