#!/venv/bin/python
"""Keep a confirmed seeded change: tools/keepseed.py <src out dir> <name> <caught_before: yes|no> [note]

Copies patch.diff, demo.py, meta.json to /verif/seeded/<name>/ and records what was run (tools/seedcheck.py)."""
import json, os, shutil, subprocess, sys
HERE = os.path.dirname(os.path.dirname(os.path.abspath(__file__)))
src, name, before = sys.argv[1:4]
note = sys.argv[4] if len(sys.argv) > 4 else ""
dst = os.path.join(HERE, "seeded", name)
os.makedirs(dst, exist_ok=True)
for f in ("patch.diff", "demo.py"):
    shutil.copy(os.path.join(src, f), os.path.join(dst, f))
meta = json.load(open(os.path.join(src, "meta.json")))
extra = sys.argv[5].split(",") if len(sys.argv) > 5 else []
checks = ",".join([meta["property"]] + extra)
out = subprocess.run([os.path.join(HERE, "tools", "seedcheck.py"), dst if False else src, "--checks", checks], capture_output=True, text=True).stdout
ran = json.loads(out)
ran.pop("dir", None)
meta["breaks"] = [meta["property"]]
meta["author"] = "independent sub-agent (saw only the property text and a scratch worktree)"
meta["confirmed"] = {
    "how": "tools/seedcheck.py on a scratch worktree of /repo HEAD: demo on clean tree, patch applies, repository suite, demo on patched tree, then ./check with VERIF_REPO_SRC",
    "result": ran,
    "caught_by_checks_as_first_written": before,
    "note": note,
}
json.dump(meta, open(os.path.join(dst, "meta.json"), "w"), indent=1)
print(json.dumps(meta["confirmed"]["result"]["checks"], indent=1))
