#!/venv/bin/python
"""Create /verif/mutants/<name>.diff from a textual replacement in a file of /repo (which is not touched).

usage: tools/mkmut.py <name> "<C12 C11>" <path relative to /repo> <old> <new> [<old2> <new2> ...]
Each <old> must occur exactly once (append @N to the name of old to pick the N-th occurrence: "text@@2").
"""

from __future__ import annotations

import difflib
import os
import sys

HERE = os.path.dirname(os.path.dirname(os.path.abspath(__file__)))


def main():
    name, breaks, rel = sys.argv[1:4]
    pairs = sys.argv[4:]
    src = open(os.path.join("/repo", rel)).read()
    new = src
    for old, rep in zip(pairs[0::2], pairs[1::2]):
        nth, picked = 1, False
        if "@@" in old and old.rsplit("@@", 1)[1].isdigit():
            old, k = old.rsplit("@@", 1)
            nth, picked = int(k), True
        old = old.encode().decode("unicode_escape")
        rep = rep.encode().decode("unicode_escape")
        cnt = new.count(old)
        if cnt < nth or (nth == 1 and not picked and cnt != 1):
            sys.exit(f"'{old}' occurs {cnt} times in {rel}")
        idx = -1
        for _ in range(nth):
            idx = new.index(old, idx + 1)
        new = new[:idx] + rep + new[idx + len(old):]
    if new == src:
        sys.exit("no change")
    diff = "".join(difflib.unified_diff(src.splitlines(True), new.splitlines(True), "a/" + rel, "b/" + rel))
    out = os.path.join(HERE, "mutants", name + ".diff")
    with open(out, "w") as f:
        f.write(f"# breaks: {breaks}\n")
        f.write(diff)
    print(out)


if __name__ == "__main__":
    main()
