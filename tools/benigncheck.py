#!/venv/bin/python
"""Run the checks against a PROPERTY-PRESERVING change: every check must stay quiet (exit 0).

usage: tools/benigncheck.py <patch.diff> [--demo demo.py] [--checks C01,C04 | --all] [--tier quick] [--skip-tests] [--seed N]

Steps (scratch git worktree of /repo HEAD under $TMPDIR, removed afterwards; /repo itself is never modified):
  1. apply the patch; (optionally) repository suite must still give 69 passed; demo must exit 0
  2. ./check <ID> --no-evidence with VERIF_REPO_SRC pointing at the patched tree, for the properties anchored in the
     files the patch touches (or --checks / --all)
Prints a JSON summary; exit 0 if every check exited 0, 1 otherwise (an alarm here is a FALSE alarm to be analysed -
unless the change does break the property after all).
"""

from __future__ import annotations

import argparse
import json
import os
import re
import shutil
import subprocess
import sys
import tempfile
import time

HERE = os.path.dirname(os.path.dirname(os.path.abspath(__file__)))

BY_FILE = {
    "flow/reservoir.py": ["C01", "C02", "C03", "C04", "C10", "C17", "C18", "C20"],
    "flow/flowproperties.py": ["C01", "C02", "C03", "C04", "C09", "C14", "C15", "C16", "C17", "C18"],
    "forecast/forecast.py": ["C05"],
    "forecast/forecast_pressure.py": ["C18", "C20"],
    "fluids/gas.py": ["C06", "C07", "C08", "C13", "C19"],
    "fluids/oil.py": ["C07", "C11", "C12", "C13", "C19"],
    "fluids/water.py": ["C07", "C11", "C13", "C19"],
    "fluids/fluid.py": ["C06", "C08", "C11", "C19"],
    "plotting.py": ["C20"],
}


def sh(cmd, cwd=None, env=None, timeout=3600):
    p = subprocess.run(cmd, shell=True, cwd=cwd, env=env, capture_output=True, text=True, timeout=timeout)
    return p.returncode, p.stdout + p.stderr


def main():
    ap = argparse.ArgumentParser()
    ap.add_argument("patch")
    ap.add_argument("--demo", default="")
    ap.add_argument("--checks", default="")
    ap.add_argument("--tier", default="quick")
    ap.add_argument("--seed", default="1")
    ap.add_argument("--skip-tests", action="store_true")
    ap.add_argument("--all", action="store_true")
    a = ap.parse_args()
    patch = os.path.abspath(a.patch)
    tmp = tempfile.mkdtemp(prefix="bbbenign_")
    wt = os.path.join(tmp, "repo")
    out = {"patch": patch}
    try:
        rc, o = sh(f"git -C /repo worktree add -q --detach {wt} HEAD")
        if rc:
            print(o)
            return 2
        rc, o = sh(f"git -C {wt} apply {patch}")
        if rc:  # written against an earlier HEAD: merge
            rc, o = sh(f"git -C {wt} apply --3way {patch}")
            out["patch_merged_3way"] = rc == 0
        out["patch_applies"] = rc == 0
        if rc:
            out["patch_error"] = o[-400:]
            print(json.dumps(out, indent=1))
            return 2
        touched = sorted(set(re.findall(r"^\+\+\+ b/src/bluebonnet/(\S+)", open(patch).read(), re.M)))
        out["touched"] = touched
        env = dict(os.environ, PYTHONPATH=os.path.join(wt, "src"), MPLBACKEND="Agg")
        if not a.skip_tests:
            rc, o = sh("/venv/bin/python -m pytest --no-cov -q -p no:cacheprovider -n 8 --timeout=900 tests", cwd=wt, env=env)
            m = re.search(r"(\d+) failed, (\d+) passed", o) or re.search(r"(\d+) passed", o)
            out["tests"] = m.group(0) if m else o[-300:]
            failed = sorted(set(re.findall(r"FAILED (\S+)", o)))
            out["tests_failed_outside_baseline"] = [f for f in failed if "test_plots.py" not in f and "test_fit_plot" not in f]
        if a.demo:
            rc, o = sh(f"/venv/bin/python {os.path.abspath(a.demo)}", cwd=wt, env=env)
            out["demo_patched_exit"] = rc
            out["demo_patched_tail"] = o.strip().splitlines()[-2:]
        checks = [c for c in a.checks.split(",") if c]
        if a.all:
            checks = [f"C{i:02d}" for i in range(1, 21)]
        if not checks:
            s = set()
            for f in touched:
                s.update(BY_FILE.get(f, []))
            checks = sorted(s)
        out["checks"] = {}
        bad = 0
        for c in checks:
            t0 = time.time()
            env2 = dict(os.environ, VERIF_REPO_SRC=os.path.join(wt, "src"), VERIF_SEED=a.seed)
            p = subprocess.run([os.path.join(HERE, "check"), c, "--tier", a.tier, "--no-evidence"], capture_output=True, text=True, env=env2)
            lines = [l.strip()[:600] for l in (p.stdout + p.stderr).splitlines() if l.strip().startswith(("violated", "HARNESS", "Traceback", "vf.core"))]
            out["checks"][c] = {"exit": p.returncode, "seconds": round(time.time() - t0, 1), "first": lines[:3]}
            bad += p.returncode != 0
        out["alarms"] = [c for c, v in out["checks"].items() if v["exit"] != 0]
        print(json.dumps(out, indent=1))
        return 1 if bad else 0
    finally:
        sh(f"git -C /repo worktree remove --force {wt}")
        shutil.rmtree(tmp, ignore_errors=True)


if __name__ == "__main__":
    sys.exit(main())
