#!/bin/bash
# Offline setup after a fresh restore: make sure hypothesis is importable by /venv (the interpreter that has the
# repository's dependencies).  Optional extras (atheris) go to /verif/.deps.  Nothing is fetched from a network.
cd "$(dirname "$0")" || exit 1
export PIP_NO_INDEX=1
if ! /venv/bin/python -c "import hypothesis" 2>/dev/null; then
  /venv/bin/pip install --no-index --find-links /opt/veriftools/wheels hypothesis || exit 1
fi
/venv/bin/python -c "import hypothesis, numpy, scipy, pandas, lmfit, matplotlib; print('hypothesis', hypothesis.__version__)" || exit 1
if ! PYTHONPATH=.deps /venv/bin/python -c "import atheris" 2>/dev/null; then
  /venv/bin/pip install --no-index --find-links /opt/veriftools/wheels --target .deps atheris >/dev/null 2>&1 || echo "atheris not installed (optional)"
fi
chmod +x check
exit 0
