exec(open('c05.py').read().split("W={}")[0])
for lo,hi in [(-2,-1),(-1,0),(0,3),(3,9),(9,12)]:
    bad=0;worst=0
    for trial in range(150):
        cn=rng.choice(list(curves)); c=curves[cn]
        M=10**rng.uniform(lo,hi); tau=10**rng.uniform(-3,5)
        end=rng.uniform(0.6,3)*tau; n=int(rng.integers(50,400))
        tt=np.linspace(0,np.sqrt(end),n)**2 if rng.random()<.5 else np.linspace(end/n,end,n)
        cum=M*c(tt/tau); f=ForecasterOnePhase(c)
        try:
            f.fit(tt,cum); e=max(abs(f.M_/M-1),abs(f.tau_/tau-1)); worst=max(worst,e); bad+= e>1e-3
        except Exception as ex: bad+=1; print(type(ex).__name__,ex)
    print("M in 1e[%d,%d]"%(lo,hi),"bad",bad,"worst",worst)
