from common import *
rng=np.random.default_rng(1)
tabs={"gas":gas(),"hay":hay(),"ideal":ideal()}
from collections import Counter
c=Counter(); worstnode={}
for trial in range(3000):
    name=rng.choice(list(tabs)); tab=tabs[name]
    pi=float(rng.uniform(200,11000)); pf=float(pi*rng.choice([rng.uniform(0.01,0.99),1-10**rng.uniform(-5,-1)]))
    pf=max(pf,tab.pressure.min()+1e-6)
    nx=int(rng.integers(3,60))
    nt=int(rng.integers(2,40))
    dts=10**rng.uniform(-8,3,size=nt)
    time=np.concatenate([[0],np.cumsum(dts)])
    fp=FlowProperties(tab,pi); r=SinglePhaseReservoir(nx,pf,pi,fp); r.simulate(time)
    m=r.pseudopressure; mi=float(fp.m_i); mf=float(fp.m_scaled_func(pf)); d=mi-mf
    inc=np.diff(m,axis=0)/d
    for j in range(nx):
        v=inc[:,j].max()
        if v>1e-7:
            c[j]+=1
            if v>worstnode.get(j,(0,))[0]: worstnode[j]=(v,name,round(pf,1),round(pi,1),nx)
print(sorted(c.items())[:10]); 
for j in sorted(worstnode)[:8]: print(j,worstnode[j])
