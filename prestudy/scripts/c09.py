from common import *
tab=gas()
# mutation of caller table?
for mk in ("df","dict"):
    t = tab.copy() if mk=="df" else {k:tab[k].values.copy() for k in tab.columns}
    keys_before=set(t.keys()); vals_before={k:np.array(t[k]).copy() for k in t.keys()}
    fp=FlowProperties(t,5000.0)
    print(mk,"keys added to caller:",set(t.keys())-keys_before, "values changed:",[k for k in keys_before if not np.array_equal(vals_before[k],np.array(t[k]))])
    print(" m_i",fp.m_i,type(fp.m_i), "m_scaled(p_i)",fp.m_scaled_func(5000.0))
    ms=np.asarray(fp.pvt_props["m-scaled"]); print(" mono",np.diff(ms).min()>0, "alpha nodes ok",np.allclose(fp.pvt_props["alpha"],1/(np.asarray(t["compressibility"])*np.asarray(t["viscosity"]))))
    for q in [-np.inf,-1,0,1e-9,0.3,1,5,np.inf,np.nan]:
        try: print("  alpha(",q,")=",float(fp.alpha(q)))
        except Exception as e: print("  alpha(",q,") raises",type(e).__name__,e)
    a=np.asarray(fp.pvt_props["alpha"]); print(" alpha range",a.min(),a.max(), "first rows",a[:3])
# p_i outside table
for pi in (-5, 0, 12000, 13000, 1e9):
    try: fp=FlowProperties(tab,pi); print(pi,"ok m_i",fp.m_i)
    except Exception as e: print(pi,"raises",type(e).__name__,str(e)[:80])
print(tab.pressure.min(),tab.pressure.max())
# missing col
try: FlowProperties(tab.drop(columns=["viscosity"]),5000)
except Exception as e: print("missing raises",type(e).__name__,e)
# alpha branch
t2=tab.copy(); t2["alpha"]=1/(t2.compressibility*t2.viscosity)
fp=FlowProperties(t2[["pressure","pseudopressure","alpha"]].iloc[1:],5000.0)
print("alpha-branch m_i at node",fp.m_i, "off-node",FlowProperties(t2[["pressure","pseudopressure","alpha"]].iloc[1:],5005.0).m_i)
try:
    fp=FlowProperties(t2[["pressure","pseudopressure","alpha"]],5000.0); print("with p=0 row m_i",fp.m_i)
except Exception as e: print("alpha-branch with zero pseudopressure row:",type(e).__name__,e)
# rescale
r=rescale_pseudopressure(tab,1000.0,8000.0)
pp=np.interp([1000,8000],r.pressure,r.pseudopressure); print("rescale",pp, "caller unchanged",np.array_equal(tab.pseudopressure, gas().pseudopressure))
try:
    d={k:tab[k].values.copy() for k in tab.columns}; r=rescale_pseudopressure(d,1000.0,8000.0)
except Exception as e: print("rescale dict:",type(e).__name__,e)
# simple
from bluebonnet.flow.flowproperties import FlowPropertiesSimple
t3={k:tab[k].values.copy() for k in ("pressure","compressibility","viscosity")}
fs=FlowPropertiesSimple(t3,5000.0); print("simple m_i",fs.m_i, "caller keys",t3.keys())
