import matplotlib; matplotlib.use("Agg")
from common import *
import matplotlib.pyplot as plt
from bluebonnet.plotting import plot_pseudopressure, plot_recovery_factor, plot_recovery_rate, SquareRootScale
fp=FlowProperties(gas(),2000.); r=SinglePhaseReservoir(12,100.,2000.,fp); r.simulate(np.linspace(0,2,60)**2)
ax=plot_pseudopressure(r,every=7,rescale=True); L=ax.get_lines(); print(len(L),"expected",len(range(0,60,7)),L[0].get_xdata()[:3],L[1].get_ydata()[[0,-1]])
ax=plot_recovery_factor(r,change_ticks=True); l=ax.get_lines()[0]; print(np.array_equal(l.get_xdata(),r.time),np.allclose(l.get_ydata(),r.recovery_factor()),ax.get_xscale())
ax=plot_recovery_rate(r); l=ax.get_lines()[0]; print(np.allclose(l.get_ydata(),np.gradient(r.recovery_factor(),r.time)),ax.get_xscale())
tr=ax.xaxis.get_transform(); 
fig,ax=plt.subplots(); ax.set_xscale("squareroot"); T=ax.xaxis.get_transform(); a=np.array([0,1e-300,0.3,2.0,1e300]); 
f=T.transform_non_affine(a); b=T.inverted().transform(f); print(type(T).__name__,f[:4],np.max(np.abs(b[1:]/a[1:]-1)))
plt.close("all")
