import numpy as np, math, warnings, signal
warnings.filterwarnings("ignore")
from bluebonnet.fluids import gas
exec(open('c06.py').read().split("Tpc=-80.0")[0])
class TO(Exception): pass
def h(*a): raise TO()
signal.signal(signal.SIGALRM,h)
for Tr in [1.05,1.1,1.15,1.2,1.3,1.5,2.0,2.5,3.0]:
    row=[]
    for pr in [0.01,0.1,0.5,1,2,3,5,8,12,16,20,25,30]:
        signal.setitimer(signal.ITIMER_REAL,0.5)
        try:
            z=float(gas.z_factor_hallyarbrough(pr,Tr)); 
            zr=zref(Tr,pr,True)[0]
            row.append(f"{z:.3f}/{(z-zr)/zr*100:+.1f}%")
        except TO: row.append("HANG")
        except Exception as e: row.append(type(e).__name__)
        finally: signal.setitimer(signal.ITIMER_REAL,0)
    print(Tr,*row)
