import numpy as np, math, warnings
warnings.filterwarnings("ignore")
from bluebonnet.fluids import gas, oil, water
rng=np.random.default_rng(0)
# gas: density*Bg independent of pressure; density = pM/(ZRT)
worst=dict(rhoBg=0,comp=0,visc_mono=0,visc_pos=0)
Tpc,ppc=-80.0,650.0
rows=[]
for trial in range(300):
    Tr=rng.uniform(1.05,3); pr=10**rng.uniform(-2,np.log10(15)); sg=rng.uniform(0.55,1.2)
    T=Tr*(Tpc+459.67)-459.67; p=pr*ppc
    z=gas.z_factor_DAK(T,p,Tpc,ppc)
    if z>=4.99: continue
    rho=gas.density_DAK(T,p,Tpc,ppc,sg); bg=gas.b_factor_DAK(T,p,Tpc,ppc)
    rho_expect=p*28.964*sg/(z*10.73159*(T+459.67))
    p2=p*1.37; rho2=gas.density_DAK(T,p2,Tpc,ppc,sg); bg2=gas.b_factor_DAK(T,p2,Tpc,ppc)
    e1=abs(rho*bg/(rho2*bg2)-1)
    # compressibility vs d ln rho/dp central diff
    h=p*1e-4
    dl=(math.log(gas.density_DAK(T,p+h,Tpc,ppc,sg))-math.log(gas.density_DAK(T,p-h,Tpc,ppc,sg)))/(2*h)
    c=gas.compressibility_DAK(T,p,Tpc,ppc)
    e2=abs(c/dl-1)
    mu=gas.viscosity_Sutton(T,p,Tpc,ppc,sg); mu2=gas.viscosity_Sutton(T,p2,Tpc,ppc,sg)
    rows.append((Tr,pr,e1,e2,mu2-mu,abs(rho/rho_expect-1)))
rows=np.array(rows)
print("n",len(rows),"max rhoBg rel",rows[:,2].max(),"max comp rel err",rows[:,3].max(),"min dmu",rows[:,4].min(),"rho formula",rows[:,5].max())
i=np.argsort(rows[:,3])[-8:]
print(rows[i][:,[0,1,3]])
