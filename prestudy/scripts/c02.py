from common import *
import sys
def rf_exact(t):
    k=np.arange(1,400)[:,None]; lam=((2*k-1)*np.pi/2)**2
    return 1-np.sum(2/lam*np.exp(-lam*t[None,:]),axis=0)
def m_exact(x,t):
    k=np.arange(1,400)[:,None]; w=(2*k-1)*np.pi/2
    return np.sum(2/w*np.sin(w*x[None,:])*np.exp(-w**2*t),axis=0)
print("IDEAL")
for pf,pi in [(100.,8000.),(7000.,8000.)]:
  for nx,nt in [(10,100),(20,400),(40,1600),(80,6400),(160,25600)]:
    time=np.linspace(0,np.sqrt(4.0),nt)**2
    r=IdealReservoir(nx,pf,pi,None); r.simulate(time)
    rf=r.recovery_factor(); ex=(1-pf/pi)*rf_exact(time)
    err=np.abs(rf-ex).max()/(1-pf/pi)
    # field error at t index mid: node positions? try candidates
    i=nt//2; h=1/(nx-1)
    x_c={"x=j*h":np.arange(nx)*h,"x=(j+1)h":(np.arange(nx)+1)*h}
    fe={k:np.abs(r.pseudopressure[i]-m_exact(np.minimum(v,2-v),time[i])).max() for k,v in x_c.items()}
    print(pf,pi,nx,nt,"rf err",f"{err:.3e}","final",rf[-1]/(1-pf/pi),"field",{k:f"{v:.2e}" for k,v in fe.items()})
