from common import *
fp=FlowProperties(gas(),8000.0)
A=np.linspace(0,2,50)**2; B=np.linspace(0,0.5,50)**2; C=np.linspace(0,3,30)**2
for cls in (IdealReservoir,SinglePhaseReservoir):
    r=cls(20,1000.0,8000.0,fp); r.simulate(A); rfA=r.recovery_factor().copy(); r.simulate(B)
    it=r.recovery_factor_interpolator(); 
    f=cls(20,1000.0,8000.0,fp); f.simulate(B); itf=f.recovery_factor_interpolator()
    print(cls.__name__,"stale",float(it(0.2)),"fresh",float(itf(0.2)))
    r.simulate(C)
    try: it=r.recovery_factor_interpolator(); print(" other length ok", float(it(0.2)))
    except Exception as e: print(" other length:",type(e).__name__,e)
    # density then interpolator
    f=cls(20,1000.0,8000.0,fp); f.simulate(B); f.recovery_factor(density=True); print(" after density=True interpolator gives", float(f.recovery_factor_interpolator()(0.2)), "vs flux",float(itf(0.2)))
    # recovery_factor(time=other)
    f=cls(20,1000.0,8000.0,fp); f.simulate(B); 
    try: print(" rf(time=A)", f.recovery_factor(A)[-1], "rf()",f.recovery_factor()[-1])
    except Exception as e: print(" rf(time=A):",type(e).__name__,e)
