import numpy as np, warnings
warnings.filterwarnings("ignore")
from dual import Dual
from bluebonnet.fluids import oil, water
rng=np.random.default_rng(0); W={}
def upd(k,v,info):
    if v>W.get(k,(-1,))[0]: W[k]=(v,info)
print("ndim of Dual:",np.ndim(Dual(1.0,1.0)))
for trial in range(3000):
    T=rng.uniform(80,350); api=rng.uniform(12,55); sg=rng.uniform(0.56,1.3); gor=10**rng.uniform(np.log10(20),np.log10(2500))
    pb=oil.pressure_bubblepoint_Standing(T,api,sg,gor)
    if pb<=50: continue
    p=rng.uniform(15,2.5*pb) if trial%5 else pb
    info=(round(T,1),round(api,1),round(sg,3),round(gor,1),round(pb,1),round(p,1))
    d=water.b_water_McCain(T,Dual(p,1.0)); upd("bw_dp",abs(d.d-water.b_water_McCain_dp(T,p))/abs(d.d),info)
    d=oil.solution_gor_Standing(T,Dual(p,1.0),api,sg,gor); d=Dual.lift(d); h=oil.dgor_dpressure_Standing(T,p,api,sg,gor)
    upd("drs_dp",abs(d.d-h)/max(abs(d.d),1e-300) if d.d!=0 else abs(h),info)
    d=oil.b_o_bubblepoint_Standing(T,api,sg,Dual(gor,1.0)); upd("dbo_dgor",abs(d.d-oil.db_o_dgor_Standing(T,api,sg,gor))/abs(d.d),info)
print(W)
