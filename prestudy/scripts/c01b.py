from common import *
import sys
worst={}
for name,tab in [("gas",gas()),("hay",hay()),("ideal",ideal())]:
    for pf,pi in [(100,8000),(1000,8000),(7900,8000),(7990,8000),(7999.9,8000),(50,500),(5000,5100)]:
        for nx in (3,5,30,100,400):
            for tname,time in [("quad",np.linspace(0,3,300)**2),("big",np.linspace(0,1e4,20)),("geom",np.concatenate([[0],np.geomspace(1e-8,50,200)])),("huge",np.array([0,1e8,2e8,1e12]))]:
                fp = FlowProperties(tab,pi)
                r = SinglePhaseReservoir(nx,pf,pi,fp); r.simulate(time)
                m=r.pseudopressure; mi=float(fp.m_i); mf=float(fp.m_scaled_func(pf)); d=mi-mf
                vals=dict(lo=-(m.min()-mf)/d, hi=(m.max()-mi)/d, monox=-(np.diff(m,axis=1)).min()/d, monot=(np.diff(m[:,1:],axis=0)).max()/d, relax=np.abs(m[-1]-mf).max()/d if tname in("big","huge") else 0)
                for k,v in vals.items():
                    if v>worst.get(k,(0,))[0]: worst[k]=(v,name,pf,pi,nx,tname)
for k,v in worst.items(): print(k,v)
