from common import *
from scipy.interpolate import interp1d
Sw=0.1
pvt_oil = pd.read_csv("/repo/tests/data/pvt_oil.csv")
pvt_water = pd.read_csv("/repo/tests/data/pvt_water.csv").rename(columns={"T":"temperature","P":"pressure","Viscosity":"mu_w"})
df=(pvt_water.drop(columns=["temperature"]).merge(pvt_oil.rename(columns={"T":"temperature","P":"pressure","Oil_Viscosity":"mu_o","Gas_Viscosity":"mu_g","Rso":"Rs"}),on="pressure").assign(Rv=0))
df["So"]=(1-Sw)/((df["Rs"].max()-df["Rs"])*df["Bg"]/df["Bo"]/5.61458+1)
prm=RelPermParams(n_o=2,n_g=1.5,n_w=1,S_or=0.05,S_gc=0.02,S_wc=0.1,k_ro_max=0.9,k_rw_max=1,k_rg_max=0.8)
kr=relative_permeabilities_twophase(prm,Sw)
rd={"rho_o0":141.5/(45+131.5),"rho_g0":1.03e-3,"rho_w0":1}
fp=FlowPropertiesTwoPhase.from_table(df,kr,rd,0.1,Sw,6000.0)
m=np.asarray(fp.pvt_props["pseudopressure"]); ms=np.asarray(fp.pvt_props["m-scaled"]); a=np.asarray(fp.pvt_props["alpha"])
print("m[0]",m[0],"monotone",np.diff(m).min(),"min m",m.min(),"m_i",fp.m_i, "m_scaled(1000)",float(fp.m_scaled_func(1000.)))
print("alpha range",a.min(),a.max(), "neg alpha count",(a<=0).sum(), "nan",np.isnan(a).sum())
# independent integrand
p=df.pressure.values; So=df.So.values
def I(c): return np.interp(p,p,df[c].values)
kro=np.interp(So,kr.So,kr.kro); krg=np.interp(So,kr.So,kr.krg); krw=np.interp(So,kr.So,kr.krw)
lam=rd["rho_o0"]*(df.Rv*krg/(df.mu_g*df.Bg)+kro/(df.mu_o*df.Bo))+rd["rho_g0"]*(df.Rs*kro/(df.mu_o*df.Bo)+krg/(df.mu_g*df.Bg))+rd["rho_w0"]*krw/(df.mu_w*df.Bw)
ref=np.concatenate([[0],np.cumsum(0.5*(lam.values[1:]+lam.values[:-1])*np.diff(p))])
print("vs independent trapezoid maxrel",np.abs(m[1:]/ref[1:]-1).max())
# compressibility oracle
pvt=fp.pvt
pp=p[5:-5:40]; So_q=So[5:-5:40]
c=compressibility_combined_func(pp,So_q,0.1,Sw,pvt)
def storage(pq,So_q):
    g=lambda col: np.interp(pq,p,df[col].values)
    Sg=1-So_q-Sw
    return 0.1*(rd["rho_o0"]*(g("Rv")*Sg/g("Bg")+So_q/g("Bo"))+rd["rho_g0"]*(g("Rs")*So_q/g("Bo")+Sg/g("Bg"))+rd["rho_w0"]*Sw/g("Bw"))
fd=(storage(pp+0.25,So_q)-storage(pp-0.25,So_q))/0.5
print("c vs FD maxrel",np.abs(c/fd-1).max(), "c range",c.min(),c.max())
