from common import *
rng=np.random.default_rng(7)
tabs={"gas":gas(),"hay":hay(),"ideal":ideal()}
rows=[]
for trial in range(700):
    name=rng.choice(list(tabs)); tab=tabs[name]
    pi=float(rng.uniform(300,11000)); pf=float(pi*rng.choice([rng.uniform(0.01,0.99),1-10**rng.uniform(-4,-1)])); pf=max(pf,15.0)
    nx=int(rng.choice([5,10,20,40,80])); kind=rng.choice(["quad","geom","rand","uniform"]); nt=int(rng.integers(20,300))
    if kind=="quad": time=np.linspace(0,np.sqrt(rng.uniform(0.5,20)),nt)**2
    elif kind=="geom": time=np.concatenate([[0],np.geomspace(10**rng.uniform(-8,-3),rng.uniform(0.5,50),nt)])
    elif kind=="uniform": time=np.linspace(0,rng.uniform(0.5,20),nt)
    else: time=np.concatenate([[0],np.cumsum(10**rng.uniform(-6,0.5,size=nt))])
    fp=FlowProperties(tab,pi); r=SinglePhaseReservoir(nx,pf,pi,fp); r.simulate(time)
    rff=r.recovery_factor().copy(); rfd=r.recovery_factor(density=True).copy()
    rho=np.asarray(fp.pvt_props["density"],float); ms=np.asarray(fp.pvt_props["m-scaled"],float); al=np.asarray(fp.pvt_props["alpha"],float)
    mi=float(fp.m_i); mf=float(fp.m_scaled_func(pf)); d=mi-mf
    rhoi=np.interp(mi,ms,rho); ceil=1-np.interp(mf,ms,rho)/rhoi
    pp=r.pseudopressure[:, :3]; rate=(-pp[:,2]+4*pp[:,1]-3*pp[:,0])*(nx-1)*0.5
    Et=np.sum(np.diff(time)*np.abs(np.diff(rate)))/2
    # table inconsistency: G(m)=int_{mf}^{m} alpha_i/alpha dm  vs (rho(m)-rho_f)/rho_i on fine grid
    mm=np.linspace(mf,mi,400); ai=np.interp(mi,ms,al)
    G=np.concatenate([[0],np.cumsum(0.5*(ai/np.interp(mm[1:],ms,al)+ai/np.interp(mm[:-1],ms,al))*np.diff(mm))])
    H=(np.interp(mm,ms,rho)-np.interp(mf,ms,rho))/rhoi
    eps=np.abs(G-H).max()
    gap=np.abs(rff-rfd).max()
    rows.append((name,kind,nx,gap/ceil,Et/ceil,eps/ceil,d/ceil))
import collections
R=np.array([(r[2],r[3],r[4],r[5],r[6]) for r in rows],float)
resid=(R[:,1]-R[:,2]-R[:,3])*R[:,0]
print("max (gap-Et-eps)*nx /ceil",resid.max(), "median",np.median(resid), "max eps/ceil",R[:,3].max(),"d/ceil range",R[:,4].min(),R[:,4].max())
i=np.argsort(resid)[-5:]
for j in i: print(rows[j], resid[j])
print("fraction where Et<0.2*gap:",np.mean(R[:,2]<0.2*R[:,1]))
