import numpy as np, math, warnings, time
warnings.filterwarnings("ignore")
from bluebonnet.fluids import gas
exec(open('c06.py').read().split("Tpc=-80.0")[0])
rng=np.random.default_rng(0); Tpc,ppc=-80.,650.
w=0; t0=time.time(); n=0; wl=0
for i in range(2000):
    Tr=rng.uniform(1.05,3); pr=10**rng.uniform(-3,np.log10(30))
    z=gas.z_factor_DAK(Tr*(Tpc+459.67)-459.67,pr*ppc,Tpc,ppc); n+=1
    rho=0.27*pr/(z*Tr); res=abs(z-z_of_rho(rho,Tr,False)); w=max(w,res)
    if pr<1e-2: wl=max(wl,abs(z-1))
print("max residual vs code-EOS",w,"max |z-1| for pr<1e-2",wl,"time/call",(time.time()-t0)/n)
# continuity: scan pressure finely
for Tr in (1.05,1.3,2.0,3.0):
    ps=np.linspace(0.01,30,3000)*ppc
    zs=np.array([gas.z_factor_DAK(Tr*(Tpc+459.67)-459.67,p,Tpc,ppc) for p in ps])
    print(Tr,"max jump",np.abs(np.diff(zs)).max())
