from common import *
import scipy.sparse.linalg as sla, scipy.sparse as sp
rng=np.random.default_rng(0)
tabs={"gas":gas(),"hay":hay(),"ideal":ideal()}
def resid(r,single):
    t=r.time; m=r.pseudopressure; nx=r.nx
    worst=0; 
    # estimate 1/h2 from code convention
    h2=(1/nx)**2 if single else (1/(nx-1))**2
    for i in range(len(t)-1):
        dt=t[i+1]-t[i]; ratio=dt/h2
        old=m[i].copy()
        if single:
            old=np.minimum(old,float(r.fluid.m_i))
        a=r.alpha_scaled(old) if not single else None
        if single:
            b=old.copy(); b[0]=float(r.fluid.m_scaled_func(r.pressure_fracface if np.ndim(r.pressure_fracface)==0 else r.pressure_fracface[i]))
            a=r.alpha_scaled(b)
        k=ratio*a; u=m[i+1]
        res=np.empty(nx)
        res[1:-1]=(1+2*k[1:-1])*u[1:-1]-k[1:-1]*(u[:-2]+u[2:])-old[1:-1]
        res[-1]=(1+k[-1])*u[-1]-k[-1]*u[-2]-old[-1]
        res[0]=0
        scale=np.abs(old).max()
        worst=max(worst,np.abs(res).max()/scale)
    return worst
W={}
for trial in range(150):
    name=rng.choice(list(tabs)); tab=tabs[name]
    pi=float(rng.uniform(200,11000)); pf=float(pi*rng.choice([rng.uniform(0.01,0.99),1-10**rng.uniform(-4,-1)])); pf=max(pf,1.0)
    nx=int(rng.choice([3,5,10,30,100,400])); nt=int(rng.integers(2,30))
    time=np.concatenate([[0],np.cumsum(10**rng.uniform(-6,1,size=nt))])
    fp=FlowProperties(tab,pi)
    for single,cls in ((True,SinglePhaseReservoir),(False,IdealReservoir)):
        r=cls(nx,pf,pi,fp); r.simulate(time); w=resid(r,single)
        key=(cls.__name__,nx)
        if w>W.get(key,(0,))[0]: W[key]=(w,name,round(pf,1),round(pi,1))
for k in sorted(W): print(k,W[k])
