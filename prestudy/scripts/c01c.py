from common import *
rng=np.random.default_rng(0)
tabs={"gas":gas(),"hay":hay(),"ideal":ideal()}
worst=(0,)
import itertools
cnt=0
for trial in range(3000):
    name=rng.choice(list(tabs)); tab=tabs[name]
    pi=float(rng.uniform(200,11000)); pf=float(pi*rng.choice([rng.uniform(0.01,0.99),1-10**rng.uniform(-5,-1)]))
    pf=max(pf,tab.pressure.min()+1e-6)
    nx=int(rng.integers(3,60))
    nt=int(rng.integers(2,40))
    dts=10**rng.uniform(-8,3,size=nt)
    time=np.concatenate([[0],np.cumsum(dts)])
    fp=FlowProperties(tab,pi); r=SinglePhaseReservoir(nx,pf,pi,fp); r.simulate(time)
    m=r.pseudopressure; mi=float(fp.m_i); mf=float(fp.m_scaled_func(pf)); d=mi-mf
    dt1=np.diff(m[:,1:],axis=0).max()/d
    dt0=np.diff(m[:,0]).max()/d
    if dt1>worst[0]: worst=(dt1,name,pf,pi,nx,time.tolist()[:6])
    cnt+= dt0>1e-6
print(worst); print("node0 increases in",cnt)
