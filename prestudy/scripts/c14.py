from common import *
rng=np.random.default_rng(0)
cnt=dict(nan=0,above=0,neg=0,nonmono=0,ok=0,raised=0)
ex={}
for trial in range(3000):
    res=rng.dirichlet([1,1,1,3])[:3]*rng.choice([0,1],3,p=[.3,.7])
    prm=RelPermParams(n_o=rng.uniform(1,6),n_w=rng.uniform(1,6),n_g=rng.uniform(1,6),S_or=res[0],S_wc=res[1],S_gc=res[2],k_ro_max=rng.uniform(0,1),k_rw_max=rng.uniform(0,1),k_rg_max=rng.uniform(0,1))
    s=rng.dirichlet([1,1,1],size=20)
    sat=np.array([tuple(r) for r in s],dtype=[("So",float),("Sw",float),("Sg",float)])
    try: k=relative_permeabilities(sat,prm)
    except Exception as e: cnt["raised"]+=1; ex.setdefault("raise",(type(e).__name__,str(e))); continue
    bad=False
    for ph,km,sr,sn in (("kro",prm.k_ro_max,prm.S_or,"So"),("krw",prm.k_rw_max,prm.S_wc,"Sw"),("krg",prm.k_rg_max,prm.S_gc,"Sg")):
        v=k[ph]
        if np.isnan(v).any(): cnt["nan"]+=1; bad=True; ex.setdefault("nan",(prm,sat[np.isnan(v)][0]))
        if (v>km*(1+1e-12)).any(): cnt["above"]+=1; bad=True; ex.setdefault("above",(prm,sat[v>km][0],v[v>km][0]))
        below=sat[sn]<=sr
        if (v[below]!=0).any() and not np.isnan(v[below]).any(): cnt["neg"]+=1; bad=True
    cnt["ok"]+=not bad
print(cnt); 
for k,v in ex.items(): print(k,v)
# twophase
prm=RelPermParams(2.5,1.5,3.0,0.1,0.2,0.05,0.8,0.5,0.9)
df=relative_permeabilities_twophase(prm,0.15); print(df.describe().loc[["min","max"]]); print((df.So+df.Sw+df.Sg).describe().loc[["min","max"]])
