from common import *
rng=np.random.default_rng(3)
tabs={"gas":gas(),"hay":hay(),"ideal":ideal()}
worst_ratio=0; nontriv=0; W={}
for trial in range(800):
    name=rng.choice(list(tabs)); tab=tabs[name]
    pi=float(rng.uniform(300,11000)); pf=float(pi*rng.choice([rng.uniform(0.01,0.99),1-10**rng.uniform(-4,-1)])); pf=max(pf,15.0)
    nx=int(rng.choice([3,5,10,20,40,80])); nt=int(rng.integers(1,60))
    time=np.concatenate([[0],np.cumsum(10**rng.uniform(-6,rng.uniform(-3,4),size=nt))])
    fp=FlowProperties(tab,pi); r=SinglePhaseReservoir(nx,pf,pi,fp); r.simulate(time)
    mi=float(fp.m_i); mf=float(fp.m_scaled_func(pf)); d=mi-mf
    ms=np.asarray(fp.pvt_props["m-scaled"],float); al=np.asarray(fp.pvt_props["alpha"],float)
    sel=(ms>=mf)&(ms<=mi); cand=np.concatenate([al[sel],[float(fp.alpha(mf)),float(fp.alpha(mi))]])
    amin=cand.min()/float(fp.alpha(mi))
    # discrete operator eigen: nodes 0..nx-1, ghost dirichlet, noflow; h2=(1/nx)^2
    h2=(1/nx)**2
    L=np.zeros((nx,nx)); 
    for j in range(nx):
        L[j,j]=2; 
        if j>0: L[j,j-1]=-1
        if j<nx-1: L[j,j+1]=-1
    L[-1,-1]=1
    w,V=np.linalg.eigh(L/h2); lam=w[0]; phi=np.abs(V[:,0]); 
    c0=d/phi.min()
    bound=c0*phi.max()*np.prod(1/(1+lam*amin*np.diff(time)))
    err=np.abs(r.pseudopressure[-1]-mf).max()
    tol=1e-9*mi
    if bound<1e-3*d: nontriv+=1
    ratio=(err-tol)/bound if bound>0 else 0
    if err>bound+tol: print("VIOLATION",name,pf,pi,nx,err/d,bound/d)
    worst_ratio=max(worst_ratio,err/(bound+tol))
print("worst err/(bound+tol)",worst_ratio,"nontrivial",nontriv)
