import numpy as np, warnings, signal
warnings.filterwarnings("ignore")
from bluebonnet.fluids import gas, Fluid, build_pvt_gas
nh0=gas.make_nonhydrocarbon_properties(0,0,0)
for fl in ("dry gas","wet gas"):
    for sg in (0.6,0.9):
        t,p=gas.pseudocritical_point_Sutton(sg,nh0,fl)
        if fl=="dry gas": te=120.1+429*sg-62.9*sg**2; pe=671.1-14*sg-34.3*sg**2
        else: te=164.3+357.7*sg-67.7*sg**2; pe=744-125.4*sg+5.9*sg**2
        print(fl,sg,t+459.67-te,p-pe)
nh=gas.make_nonhydrocarbon_properties(0.03,0.012,0.018); nh2=gas.make_nonhydrocarbon_properties(0.03,0.012,0.018,("Helium",0.0,4.0,9.34,33.0))
print(gas.pseudocritical_point_Sutton(0.7,nh,"wet gas"),gas.pseudocritical_point_Sutton(0.7,nh2,"wet gas"))
try: gas.pseudocritical_point_Sutton(0.7,nh,"oil")
except ValueError as e: print("rejects",e)
try: build_pvt_gas({"N2":0,"H2S":0,"CO2":0,"Gas Specific Gravity":0.7,"Reservoir Temperature (deg F)":200.0},"condensate",100)
except Exception as e: print("builder rejects:",type(e).__name__)
tab=build_pvt_gas({"N2":0.01,"H2S":0.0,"CO2":0.02,"Gas Specific Gravity":0.7,"Reservoir Temperature (deg F)":200.0},"wet gas",105)
print(tab.pressure.values, tab.columns.tolist())
# HY hang probe using call counting
class TO(Exception): pass
def h(*a): raise TO()
signal.signal(signal.SIGALRM,h)
rng=np.random.default_rng(0); hang=0; nan=0; n=0; ex=[]
for i in range(4000):
    Tr=rng.uniform(1.05,3.0); pr=10**rng.uniform(-2,np.log10(30)); n+=1
    signal.setitimer(signal.ITIMER_REAL,0.3)
    try:
        z=gas.z_factor_hallyarbrough(pr,Tr)
        if not np.isfinite(z): nan+=1; len(ex)<5 and ex.append(("nan",Tr,pr))
    except TO: hang+=1; len(ex)<8 and ex.append(("hang",Tr,pr))
    except Exception as e: ex.append((type(e).__name__,Tr,pr))
    finally: signal.setitimer(signal.ITIMER_REAL,0)
print("HY n",n,"hang",hang,"nan",nan,ex[:8])
