from common import *
rng=np.random.default_rng(5)
tab=gas(); pi=6587.1; pf=6579.0; nx=80
fp=FlowProperties(tab,pi)
mi=float(fp.m_i); mf=float(fp.m_scaled_func(pf)); d=mi-mf
rho=np.asarray(fp.pvt_props["density"],float); ms=np.asarray(fp.pvt_props["m-scaled"],float)
ceil=1-np.interp(mf,ms,rho)/np.interp(mi,ms,rho)
print("d",d,"ceil",ceil,"d(m) vs ceil ratio",d/ceil)
for kind,time in [("quad",np.linspace(0,3,400)**2),("uniform",np.linspace(0,9,400)),("rand",np.concatenate([[0],np.cumsum(10**rng.uniform(-6,0.5,size=170))]))]:
    r=SinglePhaseReservoir(nx,pf,pi,fp); r.simulate(time)
    rff=r.recovery_factor().copy(); rfd=r.recovery_factor(density=True).copy()
    print(kind,"flux final/ceil",rff[-1]/ceil,"dens final/ceil",rfd[-1]/ceil, "max",rff.max()/ceil, "relaxed?",np.abs(r.pseudopressure[-1]-mf).max()/d)
    pp=r.pseudopressure[:, :3]; rate=(-pp[:,2]+4*pp[:,1]-3*pp[:,0])*(nx-1)*0.5
    i=np.argmax(np.abs(np.diff(rff))); print("  biggest increment at",i,"dt",np.diff(time)[i],"rate",rate[i:i+2]/d,"dt before",np.diff(time)[max(i-1,0)])
