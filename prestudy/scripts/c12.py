import numpy as np, warnings, math
warnings.filterwarnings("ignore")
from bluebonnet.fluids import oil
rng=np.random.default_rng(0)
W={}
def upd(k,v,info):
    if v>W.get(k,(-1,))[0]: W[k]=(v,info)
n=0
for trial in range(4000):
    T=rng.uniform(80,350); api=rng.uniform(12,55); sg=rng.uniform(0.56,1.3); gor=10**rng.uniform(np.log10(20),np.log10(2500))
    pb=oil.pressure_bubblepoint_Standing(T,api,sg,gor)
    if pb<=50: continue
    n+=1
    info=(round(T,1),round(api,1),round(sg,3),round(gor,1),round(pb,1))
    eps=pb*1e-9
    for name,f in [("rs",oil.solution_gor_Standing),("bo",oil.b_o_Standing),("rho",oil.density_Standing),("mu",oil.viscosity_beggs_robinson)]:
        lo=f(T,pb-eps,api,sg,gor); hi=f(T,pb+eps,api,sg,gor); at=f(T,pb,api,sg,gor)
        upd("jump_"+name,abs(hi-lo)/abs(at),info); upd("at_"+name,max(abs(at-lo),abs(at-hi))/abs(at),info)
    # rs at/above = gor ; inverse below
    ps=np.sort(rng.uniform(15,2.5*pb,12))
    rs=[oil.solution_gor_Standing(T,p,api,sg,gor) for p in ps]
    upd("rs_noninc",max(0,-np.diff(rs).min())/gor,info)
    for p,r in zip(ps,rs):
        if p>=pb: upd("rs_above",abs(r-gor)/gor,info)
        else: upd("rs_inverse",abs(oil.pressure_bubblepoint_Standing(T,api,sg,r)-p)/p,info)
    bo=[oil.b_o_Standing(T,p,api,sg,gor) for p in ps]
    below=ps<pb
    if below.sum()>1: upd("bo_rise_below",max(0,-np.diff(np.array(bo)[below]).min()),info)
    if (~below).sum()>1: upd("bo_fall_above",max(0,np.diff(np.array(bo)[~below]).max()),info+(ps[~below].tolist(),))
    mu=[oil.viscosity_beggs_robinson(T,p,api,sg,gor) for p in ps]
    if below.sum()>1: upd("mu_fall_below",max(0,np.diff(np.array(mu)[below]).max()),info)
    upd("mu_nonpos",max(0,-min(mu)),info)
    co=[oil.oil_compressibility_undersat_Spivey(T,p,api,sg,gor) for p in ps[~below]]
    if co: upd("co_nonpos",max(0,-min(co)),info+(ps[~below].tolist(),))
    upd("nan",float(any(not np.isfinite(x) for x in rs+bo+mu)),info)
print("n",n)
for k,v in W.items(): print(k,v)
