import numpy as np, warnings
warnings.filterwarnings("ignore")
from bluebonnet.fluids import oil, water, Fluid
T,api,sg,gor=200.0,35.0,0.8,650.0
pb=oil.pressure_bubblepoint_Standing(T,api,sg,gor); print("pb",pb)
def cmp(name,f_arr,f_sc,arr):
    before=arr.copy()
    try:
        out=f_arr(arr)
    except Exception as e:
        print(name,arr.dtype,"ARRAY RAISES",type(e).__name__,str(e)[:70]); return
    exp=np.array([f_sc(float(p)) for p in arr],dtype=float)
    out=np.asarray(out)
    err=np.max(np.abs(out.astype(float)-exp)/np.abs(exp)) if len(exp) else 0
    print(f"{name:28s} {str(arr.dtype):8s} contiguous={arr.flags.c_contiguous} out.dtype={out.dtype} shape_ok={out.shape==arr.shape} maxrel={err:.2e} input_unmodified={np.array_equal(before,arr)}")
grids={"f64":np.array([500.,1500.,pb,3000.,4500.]),"f32":np.array([500.,1500.,2627.,3000.,4500.],dtype=np.float32),
  "i64":np.arange(500,5000,500),"i32":np.arange(500,5000,500,dtype=np.int32),"strided":np.arange(100.,6000.,100.)[::7], "empty":np.array([],dtype=float),"one":np.array([2000.0]), "allabove":np.array([3000.,4000.]),"allbelow":np.array([100.,2000.])}
for g,arr in grids.items():
    print("--",g)
    cmp("b_o_Standing",lambda a:oil.b_o_Standing(T,a,api,sg,gor),lambda p:oil.b_o_Standing(T,p,api,sg,gor),arr)
    cmp("solution_gor",lambda a:oil.solution_gor_Standing(T,a,api,sg,gor),lambda p:oil.solution_gor_Standing(T,p,api,sg,gor),arr)
    cmp("co_Spivey",lambda a:oil.oil_compressibility_undersat_Spivey(T,a,api,sg,gor),lambda p:oil.oil_compressibility_undersat_Spivey(T,p,api,sg,gor),arr)
    cmp("density_Standing",lambda a:oil.density_Standing(T,a,api,sg,gor),lambda p:oil.density_Standing(T,p,api,sg,gor),arr)
    cmp("b_w",lambda a:water.b_water_McCain(T,a),lambda p:water.b_water_McCain(T,p),arr)
    cmp("b_w_dp",lambda a:water.b_water_McCain_dp(T,a),lambda p:water.b_water_McCain_dp(T,p),arr)
    cmp("c_w",lambda a:water.compressibility_water_McCain(T,a,5.0),lambda p:water.compressibility_water_McCain(T,p,5.0),arr)
    cmp("rho_w",lambda a:water.density_water_McCain(T,a,5.0),lambda p:water.density_water_McCain(T,p,5.0),arr)
    cmp("mu_w",lambda a:water.viscosity_water_McCain(T,a,5.0),lambda p:water.viscosity_water_McCain(T,p,5.0),arr)
    fl=Fluid(T,api,sg,gor,salinity=5.0)
    cmp("Fluid.oil_FVF",fl.oil_FVF,lambda p:oil.b_o_Standing(T,p,api,sg,gor),arr)
    cmp("Fluid.oil_viscosity",fl.oil_viscosity,lambda p:oil.viscosity_beggs_robinson(T,p,api,sg,gor),arr)
    cmp("Fluid.water_FVF",fl.water_FVF,lambda p:water.b_water_McCain(T,p),arr)
    cmp("Fluid.water_viscosity",fl.water_viscosity,lambda p:water.viscosity_water_McCain(T,p,5.0),arr)
