import numpy as np, math, warnings
warnings.filterwarnings("ignore")
from bluebonnet.fluids import gas
from scipy.optimize import brentq
A=[0.3265,-1.07,-0.5339,0.01569,-0.05165,0.5475,-0.7361,0.1844,0.1056,0.6134,0.721]
def z_of_rho(rho,Tr,published=True):
    c1 = (A[0]+A[1]/Tr if published else A[0]*A[1]/Tr) + A[2]/Tr**3+A[3]/Tr**4+A[4]/Tr**5
    c2 = A[5]+A[6]/Tr+A[7]/Tr**2
    c3 = -A[8]*(A[6]/Tr+A[7]/Tr**2)
    return 1 + c1*rho + c2*rho**2 + c3*rho**5 + A[9]*(1+A[10]*rho**2)*rho**2/Tr**3*math.exp(-A[10]*rho**2)
def zref(Tr,pr,published=True):
    f=lambda z: z - z_of_rho(0.27*pr/(z*Tr),Tr,published)
    # scan roots
    zs=np.linspace(0.05,5,4000); fs=[f(z) for z in zs]
    roots=[brentq(f,zs[i],zs[i+1]) for i in range(len(zs)-1) if fs[i]*fs[i+1]<0]
    return roots
Tpc=-80.0; ppc=650.0
T=lambda Tr: Tr*(Tpc+459.67)-459.67
# pinned test points
for (t,p,tpc,pc) in [(400,100,-102.21827232417752,648.510797253794),(300,5014.7,-80.95111110103215,656.7949325583305)]:
    Tr=(t+459.67)/(tpc+459.67); pr=p/pc
    print("pinned",Tr,pr,"code",gas.z_factor_DAK(t,p,tpc,pc),"pub",zref(Tr,pr,True),"code-eos",zref(Tr,pr,False))
bad=0;n=0;res=[]
for Tr in np.linspace(1.05,3,14):
    row=[]
    for pr in [0.01,0.1,0.5,1,2,3,5,8,12,16,20,25,30]:
        z=gas.z_factor_DAK(T(Tr),pr*ppc,Tpc,ppc)
        rc=zref(Tr,pr,False); rp=zref(Tr,pr,True)
        dc=min(abs(z-r) for r in rc) if rc else 9
        dp=min(abs(z-r) for r in rp) if rp else 9
        row.append(f"{z:.3f}/{dc:.0e}/{dp:.0e}/{len(rc)}{len(rp)}")
    print(f"Tr={Tr:.2f}",*row)
