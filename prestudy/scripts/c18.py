from common import *
import time as _t
from lmfit import Parameters
from bluebonnet.forecast import fit_production_pressure
from bluebonnet.forecast import forecast_pressure as fpmod
tab=hay()
n=120; tau=200.; M=5000.; pi=6000.
days=np.arange(n); pf=np.full(n,3000.); pf[40:]=2000.; pf[80:]=1200.
fp=FlowProperties(tab,pi); r=SinglePhaseReservoir(80,pi,pi,fp); r.simulate(days/tau,pressure_fracface=pf); rf=r.recovery_factor()
cum=M*rf; gas_rate=np.diff(cum,prepend=0.0)
prod=pd.DataFrame({"Days":days,"Gas":gas_rate,"Pressure":pf})
# objective at generating params with cum production = cumsum(gas)
P=Parameters(); P.add("tau",value=tau); P.add("M",value=M); P.add("p_initial",value=pi)
res=fpmod._obj_function(P,days,np.cumsum(gas_rate),tab,pf); print("obj at truth max",np.abs(res).max())
# rows with zero gas (day 0 has rate 0 -> filtered!)
calls=[]
orig=fpmod._obj_function
def spy(params,*a):
    calls.append((params["tau"].value,params["M"].value,params["p_initial"].value)); return orig(params,*a)
fpmod._obj_function=spy
t0=_t.time(); out=fit_production_pressure(prod,tab,5500.,n_iter=10,pressure_imax=12000.); print("fit time",_t.time()-t0,"nfev",out.nfev,len(calls))
print({k:(v.value,v.min,v.max) for k,v in out.params.items()}); print("ndata",out.ndata,len(out.residual))
out2=fit_production_pressure(prod,tab,5500.,n_iter=10,pressure_imax=12000.,filter_window_size=1)
print("window1 identical",all(out.params[k].value==out2.params[k].value for k in out.params))
prod2=prod.copy(); prod2.loc[[10,11,50],"Gas"]=0; prod2.loc[[20,60],"Pressure"]=np.nan
out3=fit_production_pressure(prod2,tab,5500.,n_iter=5,pressure_imax=12000.); print("filtered ndata",out3.ndata, "expected",((prod2.Gas>0)&prod2.Pressure.notna()).sum())
try:
    out4=fit_production_pressure(prod2.fillna(2000.),tab,5500.,n_iter=5,pressure_imax=12000.,filter_zero_prod_days=False); print("unfiltered ndata",out4.ndata)
except Exception as e: print("unfiltered:",type(e).__name__,e)
