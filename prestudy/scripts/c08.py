import numpy as np, math, warnings, time
warnings.filterwarnings("ignore")
from bluebonnet.fluids import gas, build_pvt_gas, pseudopressure
t0=time.time()
gv={"N2":0.02,"H2S":0.01,"CO2":0.03,"Gas Specific Gravity":0.7,"Reservoir Temperature (deg F)":250.0}
tab=build_pvt_gas(gv,"dry gas",maximum_pressure=6000)
print("build time",time.time()-t0, len(tab), tab.columns.tolist())
print(tab.head(3)); print(tab.tail(2))
nh=gas.make_nonhydrocarbon_properties(0.02,0.01,0.03)
tpc,ppc=gas.pseudocritical_point_Sutton(0.7,nh,"dry gas")
pp2=pseudopressure(tab.pressure.values,tab.viscosity.values,tab["z-factor"].values)
print("standalone vs builder max rel", np.max(np.abs(pp2[1:]/tab.pseudopressure.values[1:]-1)))
for pa,pb in [(10,100),(100,1000),(1000,3000),(3000,5990),(20,30)]:
    t0=time.time()
    qa=gas.pseudopressure_Hussainy(250.0,pa,tpc,ppc,0.7); qb=gas.pseudopressure_Hussainy(250.0,pb,tpc,ppc,0.7)
    ta=np.interp(pa,tab.pressure,tab.pseudopressure); tb=np.interp(pb,tab.pressure,tab.pseudopressure)
    print(pa,pb,"quad diff",qb-qa,"table diff",tb-ta,"rel",(tb-ta)/(qb-qa)-1, "t",time.time()-t0)
print("at ref",gas.pseudopressure_Hussainy(250.0,14.7,tpc,ppc,0.7))
print("mono",np.diff(tab.pseudopressure).min()>0)
print("zmax",tab["z-factor"].max())
