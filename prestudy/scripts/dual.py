import math, numpy as np
class Dual:
    __array_priority__=1000
    def __init__(s,v,d=0.0): s.v=float(v); s.d=float(d)
    @staticmethod
    def lift(x): return x if isinstance(x,Dual) else Dual(x,0.0)
    def __add__(s,o): o=Dual.lift(o); return Dual(s.v+o.v,s.d+o.d)
    __radd__=__add__
    def __sub__(s,o): o=Dual.lift(o); return Dual(s.v-o.v,s.d-o.d)
    def __rsub__(s,o): o=Dual.lift(o); return Dual(o.v-s.v,o.d-s.d)
    def __mul__(s,o): o=Dual.lift(o); return Dual(s.v*o.v,s.d*o.v+s.v*o.d)
    __rmul__=__mul__
    def __truediv__(s,o): o=Dual.lift(o); return Dual(s.v/o.v,(s.d*o.v-s.v*o.d)/o.v**2)
    def __rtruediv__(s,o): return Dual.lift(o)/s
    def __neg__(s): return Dual(-s.v,-s.d)
    def __pow__(s,o):
        if isinstance(o,Dual):
            val=s.v**o.v; return Dual(val, val*(o.d*math.log(s.v)+o.v*s.d/s.v))
        return Dual(s.v**o, o*s.v**(o-1)*s.d)
    def __rpow__(s,o): val=o**s.v; return Dual(val,val*math.log(o)*s.d)
    def __lt__(s,o): return s.v<Dual.lift(o).v
    def __le__(s,o): return s.v<=Dual.lift(o).v
    def __gt__(s,o): return s.v>Dual.lift(o).v
    def __ge__(s,o): return s.v>=Dual.lift(o).v
    def __float__(s): return s.v
    # numpy ufunc hooks
    def sqrt(s): return s**0.5
    def exp(s): e=math.exp(s.v); return Dual(e,e*s.d)
    def log(s): return Dual(math.log(s.v),s.d/s.v)
