from common import *
import itertools
for name,tab in [("gas",gas()),("hay",hay())]:
    for pf,pi in [(100,8000),(1000,8000),(7900,8000),(7990,8000),(50,500),(5000,5100)]:
        for nx in (5,30,100):
            for tname,time in [("quad",np.linspace(0,3,300)**2),("big",np.linspace(0,1e4,20)),("geom",np.concatenate([[0],np.geomspace(1e-8,50,200)]))]:
                fp = FlowProperties(tab,pi)
                r = SinglePhaseReservoir(nx,pf,pi,fp); r.simulate(time)
                m=r.pseudopressure; mi=float(fp.m_i); mf=float(fp.m_scaled_func(pf))
                lo=m.min()-mf; hi=m.max()-mi
                mono_x=(np.diff(m,axis=1)).min()
                mono_t=(np.diff(m[:,1:],axis=0)).max()
                final=m[-1]
                print(f"{name} pf={pf} pi={pi} nx={nx} {tname}: mi={mi:.4g} mf={mf:.4g} lo={lo/(mi-mf):.2e} hi={hi/(mi-mf):.2e} monox={mono_x/(mi-mf):.2e} monot={mono_t/(mi-mf):.2e} final-mf:[{(final.min()-mf)/(mi-mf):.3e},{(final.max()-mf)/(mi-mf):.3e}]")
