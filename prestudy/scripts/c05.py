from common import *
from bluebonnet.forecast import Bounds, ForecasterOnePhase
rng=np.random.default_rng(0)
t=np.linspace(0,np.sqrt(6),800)**2
r=IdealReservoir(40,500.,5000.,None); r.simulate(t); r.recovery_factor(); rf_ideal=r.recovery_factor_interpolator()
fp=FlowProperties(gas(),8000.); r2=SinglePhaseReservoir(40,1000.,8000.,fp); r2.simulate(t); r2.recovery_factor(); rf_gas=r2.recovery_factor_interpolator()
def rf_an(ts):
    ts=np.asarray(ts,float); k=np.arange(1,200)[:,None]; lam=((2*k-1)*np.pi/2)**2
    return 1-np.sum(2/lam*np.exp(-lam*ts[None,:]),axis=0)
curves={"ideal":rf_ideal,"gas":rf_gas,"analytic":rf_an}
W={}
fails=[]
for trial in range(300):
    cn=rng.choice(list(curves)); c=curves[cn]
    M=10**rng.uniform(-3,9); tau=10**rng.uniform(-3,5)
    end=rng.uniform(0.6,3)*tau; n=int(rng.integers(50,400))
    tt=np.linspace(0,np.sqrt(end),n)**2 if rng.random()<.5 else np.linspace(end/n,end,n)
    cum=M*c(tt/tau)
    f=ForecasterOnePhase(c)
    try:
        f.fit(tt,cum)
        eM=abs(f.M_/M-1); et=abs(f.tau_/tau-1)
        k=cn
        if max(eM,et)>W.get(k,(0,))[0]: W[k]=(max(eM,et),M,tau,end/tau,n)
        if max(eM,et)>1e-3: fails.append((cn,M,tau,end/tau,n,eM,et))
    except Exception as e:
        fails.append((cn,M,tau,end/tau,n,type(e).__name__,str(e)[:60]))
print(W); print(len(fails)); 
for f in fails[:15]: print(f)
