from common import *
from scipy.integrate import solve_ivp
import time as _t
def mol_reference(fp, pf, t_eval, N=400):
    ms=np.asarray(fp.pvt_props["m-scaled"],float); al=np.asarray(fp.pvt_props["alpha"],float)
    mi=float(fp.m_i); mf=float(fp.m_scaled_func(pf)); ai=np.interp(mi,ms,al)
    h=1.0/N; x=np.arange(1,N+1)*h   # unknowns at x=h..1 ; u(0)=mf; reflect at x=1 (ghost u_{N+1}=u_{N-1})
    def rhs(t,u):
        a=np.interp(u,ms,al)/ai
        up=np.concatenate([[mf],u,[u[-2]]])
        return a*(up[:-2]-2*up[1:-1]+up[2:])/h**2
    # smooth start: exact similarity impossible; start from step initial data
    u0=np.full(N,mi)
    sol=solve_ivp(rhs,(0,t_eval[-1]),u0,method="LSODA",t_eval=t_eval,rtol=1e-9,atol=1e-12,lband=1,uband=1)
    U=sol.y.T
    # recovery by flux at face: second-order one-sided using u(0)=mf
    flux=(-3*mf+4*U[:,0]-U[:,1])/(2*h)
    return x,U,flux
tab=gas()
for pf,pi in [(1000.,8000.),(7000.,8000.)]:
    fp=FlowProperties(tab,pi)
    T=2.0
    t_eval=np.linspace(0,np.sqrt(T),41)**2
    t0=_t.time(); x,U,flux=mol_reference(fp,pf,t_eval); print("ref time",_t.time()-t0)
    mi=float(fp.m_i); mf=float(fp.m_scaled_func(pf)); d=mi-mf
    # reference RF by mass balance? use density column in-place for reference: RF_ref(t)=1 - mean rho(u)/rho_i  (continuous analog)
    rho=np.interp(U,fp.pvt_props["m-scaled"],fp.pvt_props["density"]); rhoi=np.interp(mi,fp.pvt_props["m-scaled"],fp.pvt_props["density"])
    rf_ref=1-rho.mean(axis=1)/rhoi
    for nx,nt in [(10,161),(20,641),(40,2561),(80,10241)]:
        time=np.linspace(0,np.sqrt(T),nt)**2
        r=SinglePhaseReservoir(nx,pf,pi,fp); r.simulate(time)
        idx=np.arange(0,nt,(nt-1)//40)
        assert np.allclose(time[idx],t_eval)
        # node j at x=(j+1)/nx
        xs=(np.arange(nx)+1)/nx
        Uref=np.array([np.interp(xs,np.concatenate([[0],x]),np.concatenate([[mf],U[k]])) for k in range(len(t_eval))])
        ferr=np.abs(r.pseudopressure[idx][1:]-Uref[1:]).max()/d
        rff=r.recovery_factor()[idx]; rfd=r.recovery_factor(density=True)[idx]
        print(pf,pi,nx,nt,"field err/d",f"{ferr:.3e}","rf_flux-ref",f"{np.abs(rff-rf_ref).max():.3e}","rf_dens-ref",f"{np.abs(rfd-rf_ref).max():.3e}","final",rff[-1],rfd[-1],rf_ref[-1])
