from common import *
rng=np.random.default_rng(2)
tabs={"gas":gas(),"hay":hay(),"ideal":ideal()}
W={}
def upd(k,v,info):
    if v>W.get(k,(-1e9,))[0]: W[k]=(v,info)
for trial in range(600):
    name=rng.choice(list(tabs)); tab=tabs[name]
    pi=float(rng.uniform(300,11000)); pf=float(pi*rng.choice([rng.uniform(0.01,0.99),1-10**rng.uniform(-4,-1)])); pf=max(pf,15.0)
    nx=int(rng.choice([5,10,20,40,80])); 
    kind=rng.choice(["quad","geom","rand"])
    nt=int(rng.integers(20,200))
    if kind=="quad": time=np.linspace(0,np.sqrt(rng.uniform(0.5,20)),nt)**2
    elif kind=="geom": time=np.concatenate([[0],np.geomspace(10**rng.uniform(-8,-3),rng.uniform(0.5,50),nt)])
    else: time=np.concatenate([[0],np.cumsum(10**rng.uniform(-6,0.5,size=nt))])
    fp=FlowProperties(tab,pi); r=SinglePhaseReservoir(nx,pf,pi,fp); r.simulate(time)
    rff=r.recovery_factor().copy(); rfd=r.recovery_factor(density=True).copy()
    rho=np.asarray(fp.pvt_props["density"],float); ms=np.asarray(fp.pvt_props["m-scaled"],float)
    rhof=np.interp(float(fp.m_scaled_func(pf)),ms,rho); rhoi=np.interp(float(fp.m_i),ms,rho); ceil=1-rhof/rhoi
    info=(name,round(pf,1),round(pi,1),nx,kind,nt)
    upd("flux_dec",-np.diff(rff).min()/ceil,info); upd("dens_dec",-np.diff(rfd).min()/ceil,info)
    upd("dens_over_ceiling",(rfd.max()-ceil)/ceil,info); upd("flux_over_ceiling",(rff.max()-ceil)/ceil,info)
    upd("gap*nx",np.abs(rff-rfd).max()/ceil*nx,info); upd("start",max(abs(rff[0]),abs(rfd[0])),info)
    upd("dens_neg",-rfd.min()/ceil,info)
for k,v in W.items(): print(k,v)
