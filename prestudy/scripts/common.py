import warnings, numpy as np, pandas as pd
warnings.filterwarnings("ignore")
from bluebonnet.flow import FlowProperties, IdealReservoir, SinglePhaseReservoir
from bluebonnet.flow.flowproperties import *
ren = {"P":"pressure","Z-Factor":"z-factor","Cg":"compressibility","Viscosity":"viscosity","Density":"density"}
def gas(): return pd.read_csv("/repo/tests/data/pvt_gas.csv").rename(columns=ren)
def ideal(): return pd.read_csv("/repo/tests/data/pvt_ideal_gas.csv").rename(columns=ren)
def hay():
    return pd.read_csv("/repo/tests/data/pvt_gas_HAYNESVILLE SHALE_20.csv").rename(columns={"Density":"density"})
