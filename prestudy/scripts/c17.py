from common import *
fp=FlowProperties(gas(),8000.)
t=np.arange(0,200)*2.0**-6; t=t**1  # dyadic
t2=(np.arange(0,60)**2)*2.0**-10
for cls in (IdealReservoir,SinglePhaseReservoir):
  for tt in (t,t2):
    for s in (2.0**10, 3*2.0**-10, -2.0**5):
        a=cls(15,1000.,8000.,fp); a.simulate(tt); b=cls(15,1000.,8000.,fp); b.simulate(tt+s)
        print(cls.__name__,s,"field identical",np.array_equal(a.pseudopressure,b.pseudopressure),"rf identical",np.array_equal(a.recovery_factor(),b.recovery_factor()), "rf dens",np.array_equal(a.recovery_factor(density=True),b.recovery_factor(density=True)))
s=0.1234567
a=SinglePhaseReservoir(15,1000.,8000.,fp); a.simulate(t2); b=SinglePhaseReservoir(15,1000.,8000.,fp); b.simulate(t2+s)
print("nondyadic max diff",np.abs(a.pseudopressure-b.pseudopressure).max())
c=SinglePhaseReservoir(15,1000.,8000.,fp); c.simulate(t2,np.full(len(t2),1000.)); print("const schedule identical",np.array_equal(a.pseudopressure,c.pseudopressure))
