from common import *
rng=np.random.default_rng(11)
tabs={"gas":gas(),"hay":hay(),"ideal":ideal()}
viol=0; fired=0; covered=0; total=0
for trial in range(4000):
    name=rng.choice(list(tabs)); tab=tabs[name]
    pi=float(rng.uniform(200,11000)); pf=float(pi*rng.choice([rng.uniform(0.01,0.99),1-10**rng.uniform(-5,-1)])); pf=max(pf,1.0)
    nx=int(rng.integers(3,60)); nt=int(rng.integers(2,40))
    time=np.concatenate([[0],np.cumsum(10**rng.uniform(-8,3,size=nt))])
    fp=FlowProperties(tab,pi); r=SinglePhaseReservoir(nx,pf,pi,fp); r.simulate(time)
    m=r.pseudopressure; mi=float(fp.m_i); mf=float(fp.m_scaled_func(pf)); d=mi-mf; tol=1e-9*mi+1e-6*d
    inc=np.diff(m,axis=0)
    ok_so_far=True
    for n in range(inc.shape[0]):
        total+=1
        rise=inc[n,1:].max()>tol
        node0_rise=inc[n,0]>0 if n>0 else False   # step 0: node0 rises from m_f trivially; premise A.1 covers step 0
        if not ok_so_far: break
        if n==0:
            if rise: viol+=1; print("step0 rise?!",name,pf,pi,nx)
            covered+=1; continue
        if not node0_rise:
            covered+=1
            if rise: viol+=1; print("VIOL",name,pf,pi,nx,n,inc[n,1:].max()/d)
        if rise: ok_so_far=False; fired+=1
print("violations",viol,"steps covered by premise",covered,"of",total,"cases where a rise happened",fired)
